"""C20 - middleware routing and static files (DESIGN.md 5/C20)."""
import ast

from sa.absval import Const, Kind
from sa.expr import txt, match, atom, unawait
from sa.model import AnalysisError
from .common import assume_from
from .seq import PV, guards_matching, own_nodes

from .meta import meta
META = meta('C20', level='other', extra_tb=None)


SPELLINGS = ['engine.io', '/engine.io', 'engine.io/', '/engine.io/', '/a/b', 'a/b/', '/', '']


def _init_path_rule(A, qual, guarded):
    """The stored endpoint is the configured one with exactly one leading and one trailing
    slash, for every way of spelling it (decided by constant folding on representative
    spellings: with / without either slash, nested, and the root endpoint)."""
    from sa.absval import AbsEval
    fi = A.func(qual + '.__init__')
    for sp in SPELLINGS:
        A.counters['cases'] += 1
        asm = {'engineio_path': Const(sp)}
        ps = [p for p in A.paths(A.enum(assume=assume_from(asm), follow_handlers=False), fi,
                                 fi.cls) if p.outcome == 'return']
        A.floor('C20', '%s.__init__ paths for endpoint %r' % (qual, sp), len(ps), 1)
        core = sp.strip('/')
        want = '/' + core + '/' if core else '/'
        for p in ps:
            v = PV(p)
            w = [e.expr for e in v.ev if e.kind == 'write' and
                 txt(e.target) == 'self.engineio_path']
            ev = AbsEval(assume_from(asm))
            val = ev.eval(w[-1]) if w else None
            A.check(isinstance(val, Const) and val.v == want, 'C20.endpoint-normalised',
                    '%s: the endpoint %r is stored as %r (one leading and one trailing "/", so '
                    'that a prefix-sharing sibling cannot match)' % (qual, sp, want), A.site(fi),
                    key='%s-endpoint-normalised' % qual,
                    detail=['stored: %s = %r' % (txt(w[-1]) if w else None,
                                                 getattr(val, 'v', None))] + v.describe(),
                    behaviour='/engine.iox/ is routed to the Engine.IO server, or (root '
                              'endpoint) nothing is')



def _request_derived(expr, param='path', table='static_files'):
    """Does the term mention the request path other than as a key of the mapping table?"""
    def rec(n):
        if isinstance(n, ast.Subscript) and isinstance(n.value, ast.Name) and n.value.id == table:
            return False
        if isinstance(n, ast.Name) and n.id == param:
            return True
        return any(rec(c) for c in ast.iter_child_nodes(n))
    return expr is not None and rec(expr)


def _same_term_check(A, gs, v, san):
    """The term appended to the mapped root is the very term whose segments were tested for
    '..': nothing decodes, normalises or otherwise rewrites it after the test (``%2e%2e``
    passes the test and becomes ``..`` in an unquote applied afterwards)."""
    tested = set()
    for a in san:
        try:
            t = ast.parse(a, mode='eval').body           # '..' in X.split('/')
            x = t.comparators[0].func.value
            tested.add(ast.unparse(x))
        except Exception:
            continue
    if not tested:
        return
    for e in v.ev:
        if not (e.kind == 'write' and txt(e.target).endswith("['filename']") and
                _request_derived(unawait(e.expr))):
            continue
        root = unawait(e.expr)
        bad = []

        def walk(n, anc):
            if ast.unparse(n) in tested:
                for a_, child in anc:
                    if isinstance(a_, ast.Call) and child is not a_.func:
                        bad.append('rewritten after the test: ' + ast.unparse(a_)[:90])
                    elif isinstance(a_, ast.Call) and isinstance(a_.func, ast.Attribute) and \
                            a_.func.attr not in ('lstrip', 'rstrip', 'strip', 'join', 'format'):
                        bad.append('rewritten after the test: ' + ast.unparse(a_)[:90])
                return
            if isinstance(n, ast.Subscript) and isinstance(n.value, ast.Name) and \
                    n.value.id == 'static_files':
                return
            if isinstance(n, ast.Name) and n.id == 'path':
                bad.append('request-derived text outside the tested term: ' +
                           ast.unparse(anc[0][0] if anc else n)[:90])
                return
            for c in ast.iter_child_nodes(n):
                walk(c, [(n, c)] + anc)
        walk(root, [])
        A.check(not bad, 'C20.containment', "static files: what is appended to the mapped root "
                "is exactly the remainder that was tested for '..' segments", A.site(gs, e.node),
                key='static-same-term', detail=bad[:3] + [txt(e.expr)[:200]],
                behaviour='/static/%2e%2e/%2e%2e/secret passes the test and is decoded to '
                          '../../secret afterwards: a file outside the mapped directory is served')

def check(A):
    from . import srvrules as R_
    R_.middleware_passthrough_rule(A, 'C20')
    # ------------------------------------------------------------------ WSGIApp
    _init_path_rule(A, 'middleware.WSGIApp', False)
    _init_path_rule(A, 'async_drivers.asgi.ASGIApp', True)
    call = A.func('middleware.WSGIApp.__call__')
    ps = [p for p in A.paths(A.enum(follow_handlers=False), call, call.cls) if p.outcome != 'cut']
    n = {'engine': 0, 'static': 0, 'app': 0, '404': 0}
    SF = 'get_static_file(path, self.static_files) if self.static_files else None'
    PATH = "environ['PATH_INFO']"
    for p in ps:
        v = PV(p)
        ga = set(v.guard_atoms())
        eng = v.calls('self.engineio_app.handle_request(environ, start_response)')
        routed = (PATH + '.startswith(self.engineio_path)', True) in ga and \
            (PATH + ' is None', False) in ga
        if eng:
            n['engine'] += 1
            A.check(routed and txt(p.value) == txt(v.ev[eng[0][0]].expr), 'C20.routing',
                    'WSGIApp: a request reaches the Engine.IO server exactly when its path starts '
                    'with the normalised endpoint', A.site(call, v.node(eng[0][0])),
                    key='wsgi-routing-engine', detail=v.describe(),
                    behaviour='paths beside the endpoint (/engine.iofoo, /engine.io.js) are '
                              'routed to the Engine.IO server')
            continue
        A.check(not routed, 'C20.routing', 'WSGIApp: every request under the endpoint goes to the '
                'Engine.IO server', A.site(call), key='wsgi-routing-miss', detail=v.describe())
        served = v.calls("open(%s['filename'], 'rb')" % ('(%s)' % SF)) + \
            v.calls("open(_f, 'rb')")
        fwd = v.calls('self.wsgi_app(environ, start_response)')
        nf = v.calls('self.not_found(start_response)')
        if served:
            n['static'] += 1
            ex = [a for a, pl in ga if a.startswith('os.path.exists(') and pl]
            A.check(bool(ex) and not fwd and not nf, 'C20.static', 'WSGIApp: a static file is '
                    'served only if the mapping matched and the file exists', A.site(call),
                    key='wsgi-static-guard', detail=v.describe())
            sr = v.calls("start_response('200 OK', _h)")
            A.check(len(sr) == 1 and "'Content-Type'" in txt(sr[0][1]['h']) and
                    "['content_type']" in txt(sr[0][1]['h']), 'C20.content-type',
                    "WSGIApp: the static response carries the mapping's content type",
                    A.site(call), key='wsgi-static-ctype', detail=v.describe())
        elif fwd:
            n['app'] += 1
            A.check(('self.wsgi_app is None', False) in ga and not nf, 'C20.fallback',
                    'WSGIApp: other requests go to the wrapped application if there is one',
                    A.site(call), key='wsgi-fallback-app', detail=v.describe())
        elif nf:
            n['404'] += 1
            A.check(('self.wsgi_app is None', True) in ga, 'C20.fallback', 'WSGIApp: 404 only '
                    'when there is neither a static file nor a wrapped application', A.site(call),
                    key='wsgi-fallback-404', detail=v.describe())
    for k, c in n.items():
        A.floor('C20', 'WSGIApp %s paths' % k, c, 1)
    nfm = A.func('middleware.WSGIApp.not_found')
    for p in A.paths(A.enum(), nfm, nfm.cls):
        v = PV(p)
        A.check(bool(v.calls('start_response("404 Not Found", _h)')) and
                txt(p.value) == "[b'Not Found']", 'C20.fallback', 'WSGIApp.not_found answers 404',
                A.site(nfm), key='wsgi-404', detail=v.describe())

    # ------------------------------------------------------------------ ASGIApp
    call = A.func('async_drivers.asgi.ASGIApp.__call__')
    ps = [p for p in A.paths(A.enum(follow_handlers=False), call, call.cls) if p.outcome != 'cut']
    n = {'lifespan': 0, 'engine': 0, 'static': 0, 'app': 0, '404': 0}
    for p in ps:
        v = PV(p)
        ga = set(v.guard_atoms())
        eng = v.calls('self.engineio_server.handle_request(scope, receive, send)')
        if ("scope['type'] == 'lifespan'", True) in ga:
            n['lifespan'] += 1
            A.check(bool(v.calls('self.lifespan(scope, receive, send)')) and not eng,
                    'C20.lifespan', 'ASGIApp: lifespan scopes go to the lifespan handler',
                    A.site(call), key='asgi-routing-lifespan', detail=v.describe())
            continue
        routed = ("scope['type'] in ['http', 'websocket']", True) in ga and (
            ('self.engineio_path is None', True) in ga or
            ("self._ensure_trailing_slash(scope['path']).startswith(self.engineio_path)", True)
            in ga)
        if eng:
            n['engine'] += 1
            A.check(routed, 'C20.routing', 'ASGIApp: http/websocket requests reach the Engine.IO '
                    'server exactly when their path (with trailing slash) starts with the '
                    'endpoint', A.site(call), key='asgi-routing-engine', detail=v.describe(),
                    behaviour='paths beside the endpoint are routed to the Engine.IO server')
            continue
        A.check(not routed, 'C20.routing', 'ASGIApp: every request under the endpoint goes to '
                'the Engine.IO server', A.site(call), key='asgi-routing-miss', detail=v.describe())
        st = v.calls('self.serve_static_file(___)')
        fwd = v.calls('self.other_asgi_app(scope, receive, send)')
        nf = v.calls('self.not_found(receive, send)')
        if st:
            n['static'] += 1
            ex = [a for a, pl in ga if a.startswith('os.path.exists(') and pl]
            A.check(bool(ex) and ("scope['type'] == 'http'", True) in ga and
                    ('self.static_files', True) in ga and
                    any(txt(e.expr).startswith('get_static_file(') for e in p.events
                        if e.kind == 'call') and not fwd and not nf,
                    'C20.static', 'ASGIApp: a static file is served only for http, if the '
                    'mapping matched and the file exists', A.site(call), key='asgi-static-guard',
                    detail=v.describe())
        elif fwd:
            n['app'] += 1
            A.check(('self.other_asgi_app is None', False) in ga, 'C20.fallback',
                    'ASGIApp: other requests go to the wrapped application if there is one',
                    A.site(call), key='asgi-fallback-app', detail=v.describe())
        elif nf:
            n['404'] += 1
            A.check(('self.other_asgi_app is None', True) in ga, 'C20.fallback',
                    'ASGIApp: 404 only when there is neither a static file nor a wrapped app',
                    A.site(call), key='asgi-fallback-404', detail=v.describe())
    for k, c in n.items():
        A.floor('C20', 'ASGIApp %s paths' % k, c, 1)
    ets = A.func('async_drivers.asgi.ASGIApp._ensure_trailing_slash')
    for p in A.paths(A.enum(), ets, ets.cls):
        if p.outcome == 'return':
            v = PV(p)
            ok = txt(p.value) == 'path' and ("path.endswith('/')", True) in v.guard_atoms() or \
                txt(p.value) == "path + '/'"
            A.check(ok, 'C20.routing', '_ensure_trailing_slash appends exactly one slash when '
                    'missing', A.site(ets), key='asgi-trailing-slash', detail=v.describe())

    # ------------------------------------------------------------------ lifespan
    ls = A.func('async_drivers.asgi.ASGIApp.lifespan')
    n_cb = 0
    for t in [x for x in ast.walk(ls.node) if isinstance(x, ast.Try)]:
        body_txt = ' '.join(ast.unparse(st) for st in t.body)
        if 'self.on_startup' in body_txt or 'self.on_shutdown' in body_txt:
            n_cb += 1
            ok = any(h.type is None or (isinstance(h.type, ast.Name) and
                                        h.type.id == 'BaseException') for h in t.handlers)
            A.check(ok, 'C20.lifespan', 'whatever a startup/shutdown callback raises is reported '
                    'as lifespan.*.failed (catch-all around the callback)', A.site(ls, t),
                    key='lifespan-callback-catch-all',
                    detail=[ast.unparse(h.type) if h.type is not None else 'bare'
                            for h in t.handlers],
                    behaviour='a callback that ends with SystemExit / CancelledError / '
                              'KeyboardInterrupt leaves the ASGI server without the failed '
                              'event: it waits for the lifespan reply forever')
    A.floor('C20', 'lifespan callback try blocks', n_cb, 2)
    ps = [p for p in A.paths(A.enum(loop_bound=1, max_paths=40000), ls, ls.cls)
          if p.outcome != 'cut']
    nl = 0
    EV = "receive()['type']"
    for p in ps:
        v0 = PV(p)
        ga0 = set(v0.guard_atoms())
        if ('self.other_asgi_app is None', False) in ga0 and \
                ('self.on_startup is None', True) in ga0 and \
                ('self.on_shutdown is None', True) in ga0:
            A.check(bool(v0.calls('self.other_asgi_app(scope, receive, send)')) and
                    not v0.calls('send(___)') and p.outcome == 'return', 'C20.lifespan',
                    'lifespan is forwarded to the wrapped app when no callbacks are configured',
                    A.site(ls), key='lifespan-forward', detail=v0.describe())
            continue
        if v0.calls('self.other_asgi_app(scope, receive, send)'):
            A.violated('C20.lifespan', 'lifespan is forwarded to the wrapped app only when '
                       'neither a startup nor a shutdown callback is configured', A.site(ls),
                       key='lifespan-forward-guard', detail=v0.describe(),
                       behaviour='a configured on_startup / on_shutdown callback never runs and '
                                 'the middleware never answers complete / failed')
            continue
        # split into events (one receive() each)
        rec = [i for i, _ in v0.calls('receive()')]
        for k, ri in enumerate(rec):
            hi = rec[k + 1] if k + 1 < len(rec) else len(v0.ev)
            v = PV(p)
            v.ev = v0.ev[ri:hi]
            ga = set(v.guard_atoms())
            sends = []
            for i, c in v.calls('send(_e)'):
                d = unawait(c['e'])
                if isinstance(d, ast.Dict):
                    for kk, val in zip(d.keys, d.values):
                        if isinstance(kk, ast.Constant) and kk.value == 'type':
                            sends.append(val.value if isinstance(val, ast.Constant) else '?')
            raised = any(e.kind == 'handler' for e in v.ev)
            for phase in ('startup', 'shutdown'):
                if (EV + " == 'lifespan.%s'" % phase, True) in ga:
                    nl += 1
                    want = ['lifespan.%s.failed' % phase] if raised else \
                        ['lifespan.%s.complete' % phase]
                    A.check(sends == want, 'C20.lifespan', 'lifespan.%s is answered by exactly '
                            'one of complete / failed (failed iff the callback raised)' % phase,
                            A.site(ls), key='lifespan-%s' % phase,
                            detail=['sent: %s' % sends] + [e.text() for e in v.ev[:25]],
                            behaviour='the ASGI server hangs in startup/shutdown or sees an '
                                      'illegal event sequence')
                    if raised or phase == 'shutdown':
                        A.check(hi == len(v0.ev) and p.outcome == 'return', 'C20.lifespan',
                                'after %s the lifespan handler returns'
                                % ('a failure' if raised else 'shutdown'), A.site(ls),
                                key='lifespan-%s-return' % phase, detail=v0.describe(50))
    A.floor('C20', 'lifespan events on paths', nl, 6)

    # ------------------------------------------------------------------ static files
    gs = A.func('static_files.get_static_file')
    ps = [p for p in A.paths(A.enum(loop_bound=2, follow_handlers=False, max_paths=60000), gs)
          if p.outcome == 'return']
    n_dir = 0
    for p in ps:
        v = PV(p)
        ga = set(v.guard_atoms())
        tainted = [i for i in v.kinds('iter')] or \
            any(e.kind == 'call' and ".rsplit('/', 1)" in txt(e.expr) for e in v.ev)
        if txt(p.value) == 'None' or not any(
                e.kind == 'call' and ".rsplit('/', 1)" in txt(e.expr) for e in v.ev):
            continue
        if not any(e.kind == 'write' and txt(e.target).endswith("['filename']") and
                   _request_derived(unawait(e.expr)) for e in v.ev):
            continue
        # the request-derived suffix is part of the file name on this path
        n_dir += 1
        san = [a for a, pl in ga if not pl and a.startswith("'..' in ") and
               ".split('/')" in a]
        san2 = [a for a, pl in ga if pl and ('os.path.commonpath' in a or
                                             'is_relative_to' in a)]
        A.check(bool(san) or bool(san2), 'C20.containment',
                'static files: a request-derived path suffix reaches the file name only after '
                "every '..' segment was excluded (or the resolved path was tested against the "
                'mapped root)', A.site(gs), key='static-traversal',
                detail=v.describe(50),
                behaviour="/static/css/../../secret is served from outside the mapped directory")
        if san and not san2:
            _same_term_check(A, gs, v, san)
    A.floor('C20', 'static directory-mapping paths', n_dir, 2)
    # the remainder is *appended* to the mapped root: a path-joining API drops everything
    # before an absolute component (os.path.join('/root', '/etc/passwd') == '/etc/passwd'),
    # and an empty segment in the request (//) makes the remainder absolute
    for node in ast.walk(gs.node):
        if isinstance(node, ast.Call) and txt(node.func) in ('os.path.join', 'posixpath.join',
                                                             'ntpath.join', 'Path', 'PurePath',
                                                             'pathlib.Path') and \
                any('extra_path' in ast.unparse(a_) or 'last' in ast.unparse(a_) or
                    "rsplit('/'" in ast.unparse(a_) for a_ in node.args[1:] or node.args):
            A.violated('C20.containment', 'static files: the request-derived remainder is '
                       'appended to the mapped root, never handed to a path-joining API that '
                       'lets an absolute remainder replace the root', A.site(gs, node),
                       key='static-join-api', detail=ast.unparse(node),
                       behaviour='/static//etc/passwd is served: the doubled slash makes the '
                                 'remainder absolute and the mapped directory is discarded')
    # content type
    cts = A.model.const_value(A.model.module('static_files'), 'content_types')
    A.check(isinstance(cts, dict) and cts.get('html') == 'text/html' and
            cts.get('js') == 'application/javascript' and cts.get('css') == 'text/css',
            'C20.content-type', 'the extension table maps html/js/css to their media types',
            'src/engineio/static_files.py', key='static-ctype-table')
    ok = False
    guard = False
    seen_default = seen_lookup = False
    EXT = ("_x.rsplit('.')[-1]", "_x.rsplit('.', 1)[-1]", "_x.split('.')[-1]")

    def _ext_of(t_):
        for f_ in EXT:
            m_ = match(f_, t_)
            if m_ is not None:
                return m_['x']
        return None
    for p_ in [p for p in A.paths(A.enum(loop_bound=1, follow_handlers=False, max_paths=60000), gs)
               if p.outcome == 'return'][:400]:
        v_ = PV(p_)
        gat = v_.guard_atoms()
        for e in p_.events:
            if not (e.kind == 'write' and txt(e.target).endswith("['content_type']")):
                continue
            t = txt(e.expr)
            ex = unawait(e.expr)
            x = None
            shape_ok = True
            g2 = match("content_types.get(_k, 'application/octet-stream')", ex)
            if g2 is not None:
                # one lookup with a default
                x = _ext_of(g2['k'])
                seen_default = seen_lookup = True
            elif match('content_types[_k]', ex) is not None:
                # explicit form: the table entry under ``k in content_types``
                k_ = match('content_types[_k]', ex)['k']
                x = _ext_of(k_)
                shape_ok = (txt(k_) + ' in content_types', True) in gat
                seen_lookup = True
            elif t == "'application/octet-stream'":
                ks = [a[:-len(' in content_types')] for a, pl in gat
                      if a.endswith(' in content_types') and not pl]
                if not ks:
                    shape_ok = False
                else:
                    try:
                        x = _ext_of(ast.parse(ks[-1], mode='eval').body)
                    except SyntaxError:
                        x = None
                seen_default = True
            elif 'content_types' in t:
                shape_ok = False
            else:
                continue        # the mapping's own content type
            fn_w = [txt(w_.expr) for w_ in p_.events if w_.kind == 'write' and
                    txt(w_.target).endswith("['filename']")]
            A.check(shape_ok and x is not None and (txt(x).endswith("['filename']") or
                                                    (fn_w and txt(x) == fn_w[-1])),
                    'C20.content-type', 'the content type is looked up by the text after '
                    'the LAST dot of the file name', A.site(gs, e.node), key='static-ext',
                    detail=[t] + [a for a, pl in gat if 'content_type' in a][:4],
                    behaviour='jquery.min.js is served as application/octet-stream')
            ok = ok or (shape_ok and x is not None)
            guard = guard or any(a.startswith("'content_type' in ") and not pl for a, pl in gat)
    A.check(ok and guard and seen_default and seen_lookup, 'C20.content-type', "the content "
            "type is the mapping's, else by extension, else application/octet-stream",
            A.site(gs), key='static-ctype-default')
