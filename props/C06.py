"""C06 - upgrade handshake (DESIGN.md 5/C06)."""
from . import sockrules as S
from . import srvrules as R

from .meta import meta
META = meta('C06', level='other', extra_tb=None)


def check(A):
    for fl in S.FLAVOURS:
        S.upgrade_handshake(A, fl, 'C06')
        S.upgrade_exit_state(A, fl, 'C06')
        S.direct_websocket(A, fl, 'C06')
        S.who_may_rules(A, fl, 'C06', parts=('flags',))
        S.get_request_rules(A, fl, 'C06')
        R.upgrade_configured_rule(A, fl, 'C06')
        R.upgrade_refusal_harmless_rule(A, fl, 'C06')
        R.admission_rules(A, fl, 'C06', parts=('sinks',))
    R.driver_handler_rule(A, 'C06')
    R.upgrades_rule(A, 'C06')
    from . import clirules as C
    for cf in C.CFLAVOURS:
        C.connect_websocket_rules(A, cf, 'C06', probe_rule='C06')
