"""C08 - client lifecycle (DESIGN.md 5/C08)."""
from . import clirules as C
from . import C02

from .meta import meta
META = meta('C08', level='other', extra_tb=None)


def check(A):
    for cf in C.CFLAVOURS:
        C.connect_rules(A, cf, 'C08')
        C.connect_polling_rules(A, cf, 'C08')
        C.connect_websocket_rules(A, cf, 'C08')
        C.disconnect_rules(A, cf, 'C08')
        C.read_loop_rules(A, cf, 'C08', timeout_rule='C08')
        C.break_release_rule(A, cf, 'C08')
        C.send_packet_rule(A, cf, 'C08')
        C.send_request_rule(A, cf, 'C08')
        C.reset_rules(A, cf, 'C08')
        C.decode_guard_rule(A, cf, 'C08')
        C.trigger_rules(A, cf, 'C08')
        C.status_gate_rule(A, cf, 'C08')
        C.request_result_rule(A, cf, 'C08')
        C.loop_condition_rule(A, cf, 'C08')
        C.write_loop_sentinel_rule(A, cf, 'C08')
        C.client_factory_rule(A, cf, 'C08')
        C.http_session_rule(A, cf, 'C08')
    # 'undecodable reply -> ConnectionError / transport error' rests on the decoder refusing
    # what is not a sequence of packets
    C02.check(A, only_decode=True, prefix='C08')
