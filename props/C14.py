"""C14 - inbound limits (DESIGN.md 5/C14)."""
from . import sockrules as S
from . import srvrules as R
from . import C02

from .meta import meta
META = meta('C14', level='other', extra_tb=None)


def check(A):
    for fl in S.FLAVOURS:
        S.post_request(A, fl, 'C14')
        S.ws_read_loop(A, fl, 'C14')
        R.response_rules(A, fl, 'C14', parts=('errors',))
    C02.check(A, only_decode=True, prefix='C14')
    R.asgi_rules(A, 'C14', buffering_rule='C14')
    R.asgi_read_rule(A, 'C14')
    R.asgi_body_rule(A, 'C14')
    R.limit_sites_rule(A, 'C14')
