"""C15 - every request and API call completes (DESIGN.md 5/C15)."""
from . import srvrules as R
from .sockrules import FLAVOURS
from . import sockrules as S

from .meta import meta
META = meta('C15', level='other', extra_tb=None)


def check(A):
    R.constructor_rules(A, 'C15')
    for fl in FLAVOURS:
        R.response_rules(A, fl, 'C15', parts=('one-response', 'errors'))
        R.no_block_rules(A, fl, 'C15')
        R.post_catch_all_rule(A, fl, 'C15')
        R.disconnect_rules(A, fl, 'C15')
        R.trigger_event_rules(A, fl, 'C15')
        S.poll_rules(A, fl, 'C15')
        S.close_once(A, fl, 'C15')
        R.admission_rules(A, fl, 'C15', parts=('sinks',))
        R.queue_unbounded_rule(A, fl, 'C15')
        R.get_result_rule(A, fl, 'C15')
    R.isolation_rules(A, 'C15')
    R.asgi_rules(A, 'C15')
    R.asgi_body_rule(A, 'C15')
    R.asgi_header_codec_rule(A, 'C15')
    R.driver_environ_rule(A, 'C15')
    R.cors_rules(A, 'C15')
    for fl in FLAVOURS:
        S.get_request_rules(A, fl, 'C15')
    R.generate_id_rules(A, 'C15')
    R.driver_response_rules(A, 'C15')
    # a poll response can only be built if every packet encodes to text on the text channel,
    # whatever was cached on it before (rule shared with C01)
    from . import C01
    import copy
    msg = A.model.const_value(A.model.module('packet'), 'MESSAGE')
    sub = copy.copy(A)
    sub.obligations = []
    C01.encode_cases(A, C01.constructor_cases(sub, msg), prefix='C15')
