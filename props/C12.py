"""C12 - request admission (DESIGN.md 5/C12)."""
from . import srvrules as R
from .sockrules import FLAVOURS
from . import sockrules as S

from .meta import meta
META = meta('C12', level='other', extra_tb=None)


def check(A):
    for fl in FLAVOURS:
        R.admission_rules(A, fl, 'C12', parts=('defs', 'sinks', 'inert'))
        R.upgrade_header_consistency_rule(A, fl, 'C12')
        S.upgrade_exit_state(A, fl, 'C12')
        S.upgrade_handshake(A, fl, 'C12')
    R.config_rules(A, 'C12', which=('transports',))
    R.middleware_passthrough_rule(A, 'C12')
    R.driver_environ_rule(A, 'C12')
    R.get_socket_rule(A, 'C12')
