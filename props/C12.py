"""C12 - request admission (DESIGN.md 5/C12)."""
from . import srvrules as R
from .sockrules import FLAVOURS

META = {'level': 'other', 'explanation': 'see DESIGN.md 5/C12', 'trusted_base': [],
        'not_decided': [], 'assumptions': []}


def check(A):
    for fl in FLAVOURS:
        R.admission_rules(A, fl, 'C12', parts=('defs', 'sinks', 'inert'))
        R.upgrade_header_consistency_rule(A, fl, 'C12')
