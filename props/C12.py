"""C12 - request admission (DESIGN.md 5/C12)."""
from . import srvrules as R
from .sockrules import FLAVOURS

from .meta import meta
META = meta('C12', level='other', extra_tb=None)


def check(A):
    for fl in FLAVOURS:
        R.admission_rules(A, fl, 'C12', parts=('defs', 'sinks', 'inert'))
        R.upgrade_header_consistency_rule(A, fl, 'C12')
