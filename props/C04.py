"""C04 - client-to-server dispatch (DESIGN.md 5/C04)."""
from . import sockrules as S
from . import srvrules as R

from .meta import meta
META = meta('C04', level='other', extra_tb=None)


def check(A):
    for fl in S.FLAVOURS:
        S.receive_table(A, fl, 'C04')
        S.post_request(A, fl, 'C04')
        S.ws_read_loop(A, fl, 'C04')
        S.ws_receive_errors(A, fl, 'C04')
        R.response_rules(A, fl, 'C04', parts=('errors',))
        R.trigger_event_rules(A, fl, 'C04')
        S.ping_task_rules(A, fl, 'C04')
    R.driver_fifo_rule(A, 'C04')
    R.driver_wait_rule(A, 'C04')
    R.driver_handler_rule(A, 'C04')
    R.driver_environ_rule(A, 'C04')
    from . import C02
    C02.check(A, only_decode=True, prefix='C04')
    # the payload text a handler sees is the one decode() produces (shared with C01); the
    # ASGI driver hands the whole POST body over
    from . import C01
    C01.decode_cases(A, A.model.const_value(A.model.module('packet'), 'MESSAGE'), prefix='C04')
    R.asgi_body_rule(A, 'C04')
    R.asgi_wait_fields_rule(A, 'C04')
