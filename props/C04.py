"""C04 - client-to-server dispatch (DESIGN.md 5/C04)."""
from . import sockrules as S

META = {
    'level': 'other',
    'explanation': 'see DESIGN.md 5/C04',
    'trusted_base': [], 'not_decided': [], 'assumptions': [],
}


def check(A):
    for fl in S.FLAVOURS:
        S.receive_table(A, fl, 'C04')
        S.post_request(A, fl, 'C04')
