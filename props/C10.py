"""C10 - client/server interoperation: composition facts (DESIGN.md 5/C10)."""
from . import clirules as C
from . import sockrules as S
from . import srvrules as R

from .meta import meta
META = meta('C10', level='other', extra_tb=None)


def check(A):
    m = A.model
    # same codec on both sides
    pk = m.cls('packet.Packet')
    pl = m.cls('payload.Payload')
    for mod in ('client', 'async_client', 'server', 'async_server', 'socket', 'async_socket',
                'base_server'):
        mi = m.module(mod)
        for sym, want in (('packet.Packet', pk), ('payload.Payload', pl)):
            if sym.split('.')[0] in mi.imports:
                r = m.resolve_symbol(mi, sym)
                A.check(r is not None and r[0] == 'class' and r[1] is want, 'C10.same-codec',
                        '%s uses the package\'s own %s' % (mod, sym), 'src/engineio/%s.py' % mod,
                        key='codec-%s-%s' % (mod, sym),
                        behaviour='client and server encode/decode with different codecs')
    for cf in C.CFLAVOURS:
        # producer <= consumer
        C.write_loop_rules(A, cf, 'C10', bound_rule='C10')
        # probe handshake constants and order (client side)
        C.connect_websocket_rules(A, cf, 'C10', probe_rule='C10')
        # client read timeouts dominate the server's ping period
        C.read_loop_rules(A, cf, 'C10', timeout_rule='C10')
        C.receive_packet_table(A, cf, 'C10')
        C.disconnect_rules(A, cf, 'C10')
        C.trigger_rules(A, cf, 'C10')
        C.connect_rules(A, cf, 'C10')
        C.client_factory_rule(A, cf, 'C10')
    for fl in S.FLAVOURS:
        S.upgrade_handshake(A, fl, 'C10')
        R.handle_connect_rules(A, fl, 'C10')
        S.ws_read_loop(A, fl, 'C10', closed_rule='C10.none-after')
        S.receive_table(A, fl, 'C10')
        S.close_once(A, fl, 'C10')
        S.ping_task_rules(A, fl, 'C10')
        S.ping_timeout_rules(A, fl, 'C10')
    R.jsonp_rule(A, 'C10')
    R.asgi_body_rule(A, 'C10')
    R.driver_send_rule(A, 'C10')
    R.driver_wait_rule(A, 'C10')
    from . import C01
    C01.decode_cases(A, A.model.const_value(A.model.module('packet'), 'MESSAGE'), prefix='C10')
    R.driver_fifo_rule(A, 'C10')
    for cf in C.CFLAVOURS:
        C.connect_polling_rules(A, cf, 'C10')
