"""C16 - session table hygiene (DESIGN.md 5/C16)."""
from . import srvrules as R
from .sockrules import FLAVOURS

META = {'level': 'other', 'explanation': 'see DESIGN.md 5/C16', 'trusted_base': [],
        'not_decided': [], 'assumptions': []}


def check(A):
    R.get_socket_rule(A, 'C16')
    R.isolation_rules(A, 'C16')
    for fl in FLAVOURS:
        R.api_rules(A, fl, 'C16')
        R.disconnect_rules(A, fl, 'C16')
        R.service_task_rules(A, fl, 'C16')
        R.response_rules(A, fl, 'C16', parts=('reap',))
