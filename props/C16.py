"""C16 - session table hygiene (DESIGN.md 5/C16)."""
from . import srvrules as R
from .sockrules import FLAVOURS
from . import sockrules as S

from .meta import meta
META = meta('C16', level='other', extra_tb=None)


def check(A):
    R.get_socket_rule(A, 'C16')
    R.isolation_rules(A, 'C16')
    for fl in FLAVOURS:
        R.api_rules(A, fl, 'C16')
        S.who_may_rules(A, fl, 'C16', parts=('table', 'flags'))
        R.disconnect_rules(A, fl, 'C16')
        R.service_task_rules(A, fl, 'C16')
        R.response_rules(A, fl, 'C16', parts=('reap',))
        S.close_once(A, fl, 'C16')
        R.handle_connect_rules(A, fl, 'C16')
        R.trigger_event_rules(A, fl, 'C16')
        R.queue_unbounded_rule(A, fl, 'C16')
        R.sweep_complete_rule(A, fl, 'C16')
        R.idle_guard_rule(A, fl, 'C16')
        R.last_ping_writers_rule(A, fl, 'C16')
        S.poll_cancel_rule(A, fl, 'C16')
    R.asgi_close_total_rule(A, 'C16')
