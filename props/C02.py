"""C02 - payload framing (DESIGN.md 5/C02)."""
import ast

from sa.absval import Const, Kind
from sa.expr import txt, match, unawait, atom, int_ordering, find_all
from sa.model import AnalysisError
from sa.terms import flatten_concat, merge_consts, parts_text
from .common import assume_from, final_writes, guards_text, describe

from .meta import meta
META = meta('C02', level='other', extra_tb=['str.split(sep) returns count(sep)+1 parts in order', 'urllib.parse.parse_qs decodes the form value'])

SEP = '\x1e'


def check(A, only_decode=False, prefix='C02'):
    m = A.model
    enc = A.func('payload.Payload.encode')
    dec = A.func('payload.Payload.decode')
    pl = m.module('payload')
    limit = m.const_value(pl, 'Payload.max_decode_packets')
    A.check(limit == 16, prefix + '.limit', 'the default per-payload packet limit is 16',
            'src/engineio/payload.py', key='limit-default', detail=repr(limit),
            behaviour='bodies with a different number of packets than documented are refused/accepted')

    # ------------------------------------------------------------- encode
    if not only_decode:
        _encode_part(A, m, enc)
        from . import sockrules as S
        for fl in S.FLAVOURS:
            S.post_request(A, fl, 'C02')
    _decode_part(A, m, dec, prefix)
    if not only_decode:
        # what the framing carries: each split-off packet text goes through Packet.decode
        # (shared with C01), a zero-packet payload is still a payload (BaseServer._ok), and the
        # ASGI driver hands the whole body to decode()
        from . import C01
        from . import srvrules as R
        C01.decode_cases(A, m.const_value(m.module('packet'), 'MESSAGE'), prefix='C02')
        R.constructor_rules(A, 'C02')
        R.asgi_body_rule(A, 'C02')
        from . import clirules as C_
        for cf in C_.CFLAVOURS:
            C_.write_loop_rules(A, cf, 'C02', bound_rule='C02')


def _encode_part(A, m, enc):
    elem0 = '_elem(self.packets, 0).encode(b64=True)'
    elem1 = '_elem(self.packets, 1).encode(b64=True)'
    nonempty = Kind('str', empty=False, truthy=True)
    en = A.enum(assume=assume_from({'jsonp_index': Const(None), elem0: nonempty,
                                    elem1: nonempty}), loop_bound=2)
    ps = [p for p in A.paths(en, enc) if p.outcome != 'cut']
    A.floor('C02.encode', 'encode paths', len(ps), 3)
    by_iter = {}
    for p in ps:
        n = sum(1 for e in p.events if e.kind == 'iter' and e.pol)
        by_iter.setdefault(n, []).append(p)
    want = {0: [], 1: [elem0], 2: [elem0, repr(SEP), elem1]}
    for n in (0, 1, 2):
        if n not in by_iter:
            raise AnalysisError('C02.encode: no path with %d loop iterations' % n)
        for p in by_iter[n]:
            A.counters['cases'] += 1
            ok = p.outcome == 'return'
            parts = merge_consts(flatten_concat(p.value)) if ok else []
            got = [txt(x) for x in parts]
            A.check(ok and got == want[n], 'C02.join',
                    'encode of %d packet(s) is their text-channel encodings in list order joined '
                    'by single U+001E' % n, A.site(enc), key='encode-join-%d' % n,
                    detail=['term: ' + parts_text(parts)] + describe(p),
                    behaviour='the peer splits the body into different packets (wrong separator, '
                              'order or channel kind)')
            its = [txt(e.expr) for e in p.events if e.kind == 'iter']
            A.check(all(t == 'self.packets' for t in its), 'C02.order',
                    'the packets are visited in list order', A.site(enc), key='encode-order',
                    detail=its)
    A.sample({'case': 'encode of 2 packets', 'term': want[2]})

    # the text-channel form itself: pkt.encode(b64=True) must return the text representation
    # whatever was encoded (and cached) on that packet before (rule shared with C01)
    from . import C01
    msg = m.const_value(m.module('packet'), 'MESSAGE')
    import copy
    sub = copy.copy(A)
    sub.obligations = []
    st = C01.constructor_cases(sub, msg)
    C01.encode_cases(A, st, prefix='C02')



def _decode_part(A, m, dec, prefix):
    if any(isinstance(n, ast.While) for n in ast.walk(dec.node)):
        A.violated(prefix + '.total', 'decode contains no unbounded loop', A.site(dec), key='decode-while',
                   behaviour='decode may hang on adversarial input')
    else:
        A.ok(prefix + '.total', 'decode contains no while loop (only iteration over the split result)',
             A.site(dec))
    rs = A.resolver.raises_of(dec, dec.cls)
    A.check(rs <= {'ValueError'}, prefix + '.total',
            'every explicit raise below Payload.decode is a ValueError', A.site(dec),
            key='decode-raises', detail=sorted(rs),
            behaviour='a malformed body fails with an error the callers do not expect')

    for case, asm in (('empty body', {'encoded_payload': Kind('str', empty=True, truthy=False)}),
                      ('non-empty body', {'encoded_payload': Kind('str', empty=False, truthy=True)})):
        en = A.enum(assume=assume_from(asm), follow_handlers=False, fresh_lists=True,
                    loop_bound=2)
        ps = [p for p in A.paths(en, dec) if p.outcome != 'cut']
        A.counters['cases'] += 1
        if case == 'empty body':
            for p in ps:
                w = [e for e in p.events if e.kind == 'write' and txt(e.target) == 'self.packets']
                A.check(p.outcome == 'return' and w and all(txt(e.expr) == '[]' for e in w),
                        prefix + '.empty', 'an empty body decodes to no packets', A.site(dec),
                        key='decode-empty', detail=describe(p))
            continue
        builds = 0
        refusals = 0
        for p in ps:
            writes = [e for e in p.events if e.kind == 'write' and txt(e.target) == 'self.packets']
            empties = {txt(e.expr) for e in writes if txt(e.expr).startswith('_list_L')
                       and e is not writes[-1]}
            appends = [e for e in p.events if e.kind == 'call' and
                       (txt(e.expr).startswith('self.packets.') or
                        any(txt(e.expr).startswith(x + '.') for x in empties))]
            A.check(not appends, prefix + '.all-or-nothing',
                    'self.packets is never filled incrementally', A.site(dec),
                    key='decode-incremental', detail=[txt(e.expr) for e in appends],
                    behaviour='a failure in one packet lets the earlier packets of the body through')
            final = [e for e in writes if txt(e.expr) != '[]' and
                     not (txt(e.expr).startswith('_list_L') and e is not writes[-1])]
            if final and txt(final[-1].expr).startswith('_list_L') and \
                    not any(txt(c.expr).startswith(txt(final[-1].expr) + '.append(')
                            for c in p.events if c.kind == 'call'):
                if not any(e.kind == 'iter' and e.pol for e in p.events) and \
                        any(e.kind == 'iter' for e in p.events):
                    continue    # zero-iteration unrolling of the building loop
            if p.outcome == 'raise':
                A.check(not final, prefix + '.all-or-nothing',
                        'a refused body leaves no packets behind', A.site(dec),
                        key='decode-raise-leaves', detail=describe(p),
                        behaviour='packets of a refused body are acted upon')
                if p.cls == 'ValueError' and any(e.kind == 'raise' and e.depth == 0
                                                 for e in p.events):
                    refusals += 1
                continue
            if not final:
                A.violated(prefix + '.decode', 'a non-empty body yields its packets', A.site(dec),
                           key='decode-nothing', detail=describe(p))
                continue
            builds += 1
            lst = final[-1].expr
            c = match('[packet.Packet(encoded_packet=_x) for _x in _parts]', lst)
            if c is None and txt(lst).startswith('_list_L'):
                # a local list filled in a loop over the split result and assigned once
                L = txt(lst)
                apps = [unawait(e.expr) for e in p.events if e.kind == 'call' and
                        txt(e.expr).startswith(L + '.append(')]
                its = [e for e in p.events if e.kind == 'iter' and e.pol]
                okl = bool(apps) and len(apps) == len(its) and final[-1] is writes[-1]
                parts_e = its[0].expr if its else None
                for k_, a_ in enumerate(apps):
                    m_ = match('packet.Packet(encoded_packet=_elem(_parts, _k))', a_.args[0]) \
                        if len(a_.args) == 1 else None
                    okl = okl and m_ is not None and txt(m_['parts']) == txt(parts_e) and \
                        txt(m_['k']) == str(k_)
                last_app = max([i for i, e in enumerate(p.events) if e.kind == 'call' and
                                txt(e.expr).startswith(L + '.append(')] or [-1])
                wi = [i for i, e in enumerate(p.events) if e is final[-1]][0]
                if okl and wi > last_app:
                    c = {'parts': parts_e}
                    lst = None
            beh_f = 'a record of the body is skipped instead of being decoded (or refused): ' \
                    'a reply made of separators only decodes to no packet at all and is taken ' \
                    'for a valid empty answer'
            if c is not None and isinstance(lst, ast.ListComp) and len(lst.generators) == 1 and \
                    lst.generators[0].ifs:
                A.violated(prefix + '.decode', 'every record of the body becomes a packet (no '
                           'record is filtered out)', A.site(dec), key='decode-filtered',
                           detail=['self.packets = %s' % txt(lst)], behaviour=beh_f)
                continue
            if c is not None:
                fp = unawait(c['parts'])
                inner = None
                if isinstance(fp, (ast.ListComp, ast.GeneratorExp)) and len(fp.generators) == 1 \
                        and fp.generators[0].ifs and \
                        match('_s.split(_sep)', fp.generators[0].iter) is not None:
                    inner = fp
                elif isinstance(fp, ast.Call) and txt(fp.func) in ('filter', 'list') and \
                        'filter(' in txt(fp) and ".split(" in txt(fp):
                    inner = fp
                if inner is not None:
                    A.violated(prefix + '.decode', 'every record of the body becomes a packet '
                               '(no record is filtered out)', A.site(dec), key='decode-filtered',
                               detail=[txt(fp)], behaviour=beh_f)
                    continue
            if c is None or (lst is not None and (
                    not isinstance(lst, ast.ListComp) or len(lst.generators) != 1 or
                    lst.generators[0].ifs)):
                A.undecided(prefix + '.decode', 'packet list construction recognised', A.site(dec),
                            'self.packets = %s' % txt(lst))
                continue
            parts = c['parts']
            sp = match('_s.split(_sep)', parts)
            if sp is None:
                A.undecided(prefix + '.decode', 'the packet list iterates a split result in order',
                            A.site(dec), txt(parts))
                continue
            A.check(match(repr(SEP), sp['sep']) is not None, prefix + '.separator',
                    'decode splits on the separator encode inserts (U+001E)', A.site(dec),
                    key='decode-separator', detail=txt(sp['sep']),
                    behaviour='encoder and decoder disagree on the packet boundary')
            S = txt(sp['s'])
            is_form = any(g == "encoded_payload.startswith('d=')" for g in guards_text(p))
            if is_form:
                A.check(S == "urllib.parse.parse_qs(encoded_payload)['d'][0]", prefix + '.form',
                        "the d= variant is unwrapped and split like a plain body", A.site(dec),
                        key='decode-form', detail=S)
            else:
                A.check(S == 'encoded_payload', prefix + '.plain', 'a plain body is split as it is',
                        A.site(dec), key='decode-plain', detail=S)
            # the refusal guard, in integer form over N = number of parts of S
            symmap = {'len(%s)' % txt(parts): ('N', 0),
                      '%s.count(%s)' % (S, txt(sp['sep'])): ('N', -1),
                      'self.max_decode_packets': ('M', 0),
                      'Payload.max_decode_packets': ('M', 0)}
            found = None
            for e in p.events:
                if e.kind != 'guard' or e.depth != 0:
                    continue
                f = int_ordering(e.expr, e.pol, symmap)
                if f is not None and 'N' in f[0]:
                    found = (f, e)
                    if f == ({'N': -1, 'M': 1}, 0):
                        break
            ok = found is not None and found[0] == ({'N': -1, 'M': 1}, 0)
            A.check(ok, prefix + '.limit-guard',
                    'packets are built only if the number of parts of the split string is <= '
                    'max_decode_packets (%s body)' % ('d=' if is_form else 'plain'),
                    A.site(dec, found[1].node if found else None),
                    key='decode-limit-%s' % ('form' if is_form else 'plain'),
                    detail=(['guard: %s (pol %s) -> %s' % (txt(found[1].expr), found[1].pol,
                                                          found[0])] if found else
                            ['no guard on the number of parts of %s' % S]) + describe(p),
                    behaviour='a body with limit+1 packets is processed, or one with exactly the '
                              'limit is refused')
        A.check(builds >= 2, prefix + '.decode', 'both body variants (plain, d=) build packets',
                A.site(dec), key='decode-variants', detail='%d building paths' % builds)
        A.check(refusals >= 1, prefix + '.limit-guard', 'an over-long body is refused with ValueError',
                A.site(dec), key='decode-refusal',
                behaviour='the packet count limit is not enforced')
    A.sample({'case': 'decode(plain body)', 'required_guard': 'M - N >= 0 on every building path'})
