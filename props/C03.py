"""C03 - server-to-client delivery (DESIGN.md 5/C03)."""
from . import sockrules as S
from . import srvrules as R

from .meta import meta
META = meta('C03', level='other', extra_tb=None)


def check(A):
    for fl in S.FLAVOURS:
        S.queue_consumers(A, fl, 'C03')
        S.poll_rules(A, fl, 'C03')
        S.get_request_rules(A, fl, 'C03')
        S.writer_rules(A, fl, 'C03')
        S.send_rules(A, fl, 'C03')
        S.direct_websocket(A, fl, 'C03')
        S.who_may_rules(A, fl, 'C03', parts=('flags',))
        S.upgrade_exit_state(A, fl, 'C03')
        R.api_rules(A, fl, 'C03')
        R.response_rules(A, fl, 'C03', parts=('reap',))
        R.get_result_rule(A, fl, 'C03')
    R.isolation_rules(A, 'C03')
    R.jsonp_rule(A, 'C03')
    R.codec_registry_rules(A, 'C03')
    R.driver_send_rule(A, 'C03')
    # binary messages leave on the channel kind of the transport that carries them (C01 cache)
    from . import C01
    import copy
    msg = A.model.const_value(A.model.module('packet'), 'MESSAGE')
    sub = copy.copy(A)
    sub.obligations = []
    C01.encode_cases(A, C01.constructor_cases(sub, msg), prefix='C03')
