"""C03 - server-to-client delivery (DESIGN.md 5/C03)."""
from . import sockrules as S

META = {'level': 'other', 'explanation': 'see DESIGN.md 5/C03', 'trusted_base': [],
        'not_decided': [], 'assumptions': []}


def check(A):
    for fl in S.FLAVOURS:
        S.queue_consumers(A, fl, 'C03')
        S.poll_rules(A, fl, 'C03')
        S.get_request_rules(A, fl, 'C03')
        S.writer_rules(A, fl, 'C03')
        S.send_rules(A, fl, 'C03')
        S.direct_websocket(A, fl, 'C03')
