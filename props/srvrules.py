"""Rules over Server / AsyncServer / BaseServer, shared by C05, C11-C13, C15-C19."""
import ast

from sa.absval import AbsEval, Const, Kind
from sa.expr import txt, match, atom, unawait, linear, int_ordering, ordering, dotted
from sa.model import AnalysisError
from .common import assume_from, describe
from .seq import PV, guards_matching, own_nodes, eq_guard
from .sockrules import FLAVOURS, pconsts, packet_ctor, evaluator


def parents_map(root):
    pm = {}
    for n in ast.walk(root):
        for c in ast.iter_child_nodes(n):
            pm[c] = n
    return pm


# ---------------------------------------------------------------------------------------
# _trigger_event: containment of handler exceptions, sync / background dispatch
# ---------------------------------------------------------------------------------------
def _is_handler_call(n):
    n = unawait(n)
    return isinstance(n, ast.Call) and isinstance(n.func, ast.Subscript) and \
        txt(n.func.value) == 'self.handlers'


def trigger_event_rules(A, fl, rule, cls_key='server'):
    fi = A.func(fl[cls_key] + '._trigger_event')
    pm = parents_map(fi.node)
    n_calls = 0
    for n in ast.walk(fi.node):
        if not _is_handler_call(n):
            continue
        n_calls += 1
        # climb: the call must sit in the *body* of a try with a bare (or BaseException) handler
        cur = n
        covered = None
        while cur in pm:
            par = pm[cur]
            if isinstance(par, ast.Try) and any(cur is st or _contains(st, cur) for st in par.body):
                for h in par.handlers:
                    if h.type is None or (isinstance(h.type, ast.Name) and
                                          h.type.id == 'BaseException'):
                        covered = (par, h)
                        break
                if covered:
                    break
            if isinstance(par, (ast.FunctionDef, ast.AsyncFunctionDef)):
                break
            cur = par
        what = '%s: the application handler call %s is contained by a catch-all' % (
            fl['name'], txt(n))
        A.check(covered is not None, rule + '.containment', what, A.site(fi, n),
                key='%s-handler-uncontained' % fl['name'],
                behaviour='an exception raised by a handler (also in the legacy one-argument '
                          'disconnect retry, or a BaseException such as a timeout) escapes: the '
                          'session close is aborted half way / the request fails without response')
        if covered:
            h = covered[1]
            bad = [x for st in h.body for x in ast.walk(st) if isinstance(x, ast.Raise)]
            A.check(not bad, rule + '.containment', '%s: the catch-all does not re-raise'
                    % fl['name'], A.site(fi, h), key='%s-handler-reraise' % fl['name'],
                    behaviour='handler exceptions propagate into the engine')
            rets = [x for st in h.body for x in ast.walk(st) if isinstance(x, ast.Return)]
            ok = True
            for r in rets:
                # only ``return False`` under ``event == 'connect'``
                g = pm.get(r)
                ok = ok and match('False', r.value) is not None and isinstance(g, ast.If) and \
                    match("event == 'connect'", g.test) is not None
            A.check(ok and bool(rets), rule + '.connect-raises-rejects',
                    '%s: an exception in the connect handler rejects the connection (returns '
                    'False), for other events nothing is returned' % fl['name'], A.site(fi, h),
                    key='%s-handler-catch-return' % fl['name'],
                    behaviour='a connect handler that raises lets the client in / an exception in '
                              'a message handler is turned into a value')
    A.floor(rule, '%s handler call sites in _trigger_event' % fl['name'], n_calls, 2)
    # dispatch mode
    sock = A.model.cls(fl[cls_key])
    en = A.enum(follow_handlers=False)
    ps = [p for p in A.paths(en, fi, sock) if p.outcome != 'cut']
    n_bg = n_inline = 0
    runners = set(fi.nested)
    for p in ps:
        v = PV(p)
        if ('event in self.handlers', True) not in v.guard_atoms():
            A.check(not v.effects(0)[1:] and p.outcome == 'return', rule + '.no-handler',
                    '%s: an event without handler does nothing' % fl['name'], A.site(fi),
                    key='%s-trigger-nohandler' % fl['name'], detail=v.describe())
            continue
        bg = [(i, c) for i, c in v.calls('self.start_background_task(_f)')
              if txt(c['f']) in runners]
        inline = [i for i, e in enumerate(v.ev) if e.kind == 'call' and e.depth == 0 and
                  txt(unawait(e.expr).func) in runners]
        ra = [pl for a, pl in v.guard_atoms() if a == "kwargs.pop('run_async', False)"]
        if not ra:
            A.undecided(rule + '.dispatch', '%s: dispatch mode guard recognised' % fl['name'],
                        A.site(fi), v.describe())
            continue
        if ra[0]:
            n_bg += 1
            A.check(len(bg) == 1 and not inline, rule + '.dispatch',
                    '%s: run_async=True starts exactly one background task for the handler'
                    % fl['name'], A.site(fi), key='%s-trigger-bg' % fl['name'],
                    detail=v.describe(), behaviour='a message event fires twice or never')
        else:
            n_inline += 1
            A.check(len(inline) == 1 and not bg, rule + '.dispatch',
                    '%s: run_async=False runs the handler inline, once' % fl['name'], A.site(fi),
                    key='%s-trigger-inline' % fl['name'], detail=v.describe(),
                    behaviour='connect/disconnect handlers do not complete before the engine '
                              'proceeds (or run twice)')
            rv = txt(p.value)
            A.check(any(rv == txt(v.ev[i].expr) for i in inline) and len(inline) == 1,
                    rule + '.dispatch', "%s: the inline handler's return value is returned"
                    % fl['name'], A.site(fi), key='%s-trigger-retval' % fl['name'],
                    detail=['returns ' + rv] + v.describe(),
                    behaviour='the connect handler verdict is lost')
    A.floor(rule, '%s _trigger_event dispatch paths' % fl['name'], min(n_bg, n_inline), 1)


def _contains(root, node):
    return any(x is node for x in ast.walk(root))


# ---------------------------------------------------------------------------------------
# _handle_connect: OPEN handshake
# ---------------------------------------------------------------------------------------
def _ms(expr):
    """linear form X of an expression int(X * 1000) (either operand order), else None."""
    c = match('int(_x * 1000)', expr) or match('int(1000 * _x)', expr)
    if c is None:
        return None
    return linear(c['x'])


def handle_connect_rules(A, fl, rule):
    P = pconsts(A)
    fi = A.func(fl['server'] + '._handle_connect')
    srv = A.model.cls(fl['server'])
    sockname = fl['socket'].split('.')[-1]
    en = A.enum(follow_handlers=True, max_paths=40000)
    ps = [p for p in A.paths(en, fi, srv) if p.outcome != 'cut']
    SID = 'self.generate_id()'
    S = '%s.%s(self, %s)' % (fl['smod'], sockname, SID)
    n_acc = n_rej = n_ws = 0
    for p in ps:
        v = PV(p)
        if any(e.kind == 'exc' and e.cls is not None for e in v.ev):
            continue
        site = A.site(fi)
        gen = v.calls('self.generate_id()')
        ctor = v.calls('%s.%s(self, _sid)' % (fl['smod'], sockname))
        store = [(i, val) for i, val in v.writes('self.sockets[%s]' % SID)]
        A.check(len(gen) == 1 and len(ctor) == 1 and txt(ctor[0][1]['sid']) == SID and
                len(store) == 1 and store[0][1] == S, rule + '.one-session',
                '%s: an open creates exactly one session under one freshly generated id'
                % fl['name'], site, key='%s-connect-one-session' % fl['name'],
                detail=v.describe(50), behaviour='two sessions / two ids for one open request')
        if not (gen and ctor and store):
            continue
        sends = v.calls(S + '.send(_p)')
        trig = v.calls("self._trigger_event('connect', ___)")
        sched = v.calls(S + '.schedule_ping()')
        ok = len(sends) >= 1 and len(trig) == 1 and len(sched) == 1 and \
            store[0][0] < sends[0][0] < trig[0][0] and sends[0][0] < sched[0][0]
        A.check(ok, rule + '.open-first', '%s: the OPEN packet is queued (and the heartbeat '
                'armed) after the session is stored and before the connect handler runs'
                % fl['name'], site, key='%s-connect-order' % fl['name'], detail=v.describe(50),
                behaviour='the connect handler runs before the session exists / another packet '
                          'precedes OPEN / no PING is ever scheduled')
        if not ok:
            continue
        tc = unawait(v.ev[trig[0][0]].expr)
        A.check(len(tc.args) == 3 and txt(tc.args[1]) == SID and txt(tc.args[2]) == 'environ' and
                any(k.arg == 'run_async' and match('False', k.value) is not None
                    for k in tc.keywords), rule + '.connect-event',
                '%s: the connect handler gets the same sid and the request environ, synchronously'
                % fl['name'], A.site(fi, v.node(trig[0][0])),
                key='%s-connect-event-args' % fl['name'], detail=txt(tc),
                behaviour='the application is told a different id than the client')
        # OPEN packet contents
        opn = unawait(sends[0][1]['p'])
        pc = packet_ctor(A, fi, opn)
        okp = pc is not None and pc[0] == P['OPEN'] and isinstance(pc[1], ast.Dict)
        if okp:
            d = {ast.literal_eval(k): val for k, val in zip(pc[1].keys, pc[1].values)
                 if isinstance(k, ast.Constant)}
            exp_keys = {'sid', 'upgrades', 'pingTimeout', 'pingInterval', 'maxPayload'}
            A.check(set(d) == exp_keys, rule + '.open-fields', '%s: OPEN carries sid, upgrades, '
                    'pingTimeout, pingInterval, maxPayload' % fl['name'], site,
                    key='%s-open-keys' % fl['name'], detail=sorted(d))
            if set(d) == exp_keys:
                A.check(txt(d['sid']) == SID, rule + '.open-fields', '%s: OPEN.sid is the session '
                        'id' % fl['name'], site, key='%s-open-sid' % fl['name'],
                        detail=txt(d['sid']), behaviour='the client addresses a different session')
                A.check(txt(d['upgrades']) == 'self._upgrades(%s, transport)' % SID,
                        rule + '.open-fields', '%s: OPEN.upgrades comes from _upgrades(sid, '
                        'transport)' % fl['name'], site, key='%s-open-upgrades' % fl['name'],
                        detail=txt(d['upgrades']))
                A.check(_ms(d['pingTimeout']) == ({'self.ping_timeout': 1}, 0),
                        rule + '.open-timing', '%s: pingTimeout = int(ping_timeout * 1000)'
                        % fl['name'], site, key='%s-open-pingtimeout' % fl['name'],
                        detail=txt(d['pingTimeout']),
                        behaviour='the client is told a different timeout than the server uses')
                A.check(_ms(d['pingInterval']) == ({'self.ping_interval': 1,
                                                    'self.ping_interval_grace_period': 1}, 0),
                        rule + '.open-timing', '%s: pingInterval = int((ping_interval + grace) * '
                        '1000): scaled to milliseconds before truncation' % fl['name'], site,
                        key='%s-open-pinginterval' % fl['name'], detail=txt(d['pingInterval']),
                        behaviour='fractional intervals are announced rounded down to whole '
                                  'seconds (0.5 s as 0 ms): the client times out a live server')
                A.check(txt(d['maxPayload']) == 'self.max_http_buffer_size', rule + '.open-fields',
                        '%s: maxPayload = max_http_buffer_size' % fl['name'], site,
                        key='%s-open-maxpayload' % fl['name'], detail=txt(d['maxPayload']))
        else:
            A.check(False, rule + '.open-first', '%s: the first packet sent is OPEN with a dict'
                    % fl['name'], site, key='%s-open-packet' % fl['name'], detail=txt(opn))
        # verdict of the connect handler
        ret_t = txt(v.ev[trig[0][0]].expr)
        rej = (ret_t + ' is None', False) in v.guard_atoms() and \
            (ret_t + ' is True', False) in v.guard_atoms()
        if rej:
            n_rej += 1
            dels = [i for i, e in enumerate(v.ev) if e.kind == 'del' and
                    txt(e.target) == 'self.sockets[%s]' % SID]
            after = [x for i, x in v.effects(0) if i > trig[0][0] and
                     any(k in x for k in ('.poll()', 'handle_get_request', '_ok('))]
            A.check(p.outcome == 'return' and
                    txt(p.value) == 'self._unauthorized(%s or None)' % ret_t and dels and
                    not after and not [i for i, val in v.writes(S + '.connected')],
                    rule + '.reject', '%s: a rejected connection is removed from the table and '
                    'answered 401 carrying the handler value; nothing else happens' % fl['name'],
                    site, key='%s-connect-reject' % fl['name'], detail=v.describe(60),
                    behaviour='a rejected session stays addressable / is served')
            continue
        A.check((ret_t + ' is None', True) in v.guard_atoms() or
                (ret_t + ' is True', True) in v.guard_atoms(), rule + '.accept',
                '%s: a session is served only if the connect handler returned None or True'
                % fl['name'], site, key='%s-connect-accept-guard' % fl['name'],
                detail=v.describe(60), behaviour='False / a message value lets the client in')
        if ("transport == 'websocket'", True) in v.guard_atoms():
            n_ws += 1
            hg = v.calls(S + '.handle_get_request(___)')
            A.check(len(hg) == 1 and hg[0][0] > trig[0][0], rule + '.accept-ws',
                    '%s: an accepted WebSocket open is handed to the WebSocket handler'
                    % fl['name'], site, key='%s-connect-ws' % fl['name'], detail=v.describe(60))
            if (S + '.closed', True) in v.guard_atoms() and \
                    (SID + ' in self.sockets', True) in v.guard_atoms():
                dels = [i for i, e in enumerate(v.ev) if e.kind == 'del']
                A.check(bool(dels), 'C16.reap-ws' if rule.startswith('C16') else rule + '.reap-ws',
                        '%s: a finished WebSocket session is removed from the table' % fl['name'],
                        site, key='%s-connect-ws-reap' % fl['name'], detail=v.describe(60))
            continue
        n_acc += 1
        conn = [i for i, val in v.writes(S + '.connected') if val == 'True']
        polls = v.calls(S + '.poll()')
        A.check(conn and polls and trig[0][0] < conn[0] < polls[0][0], rule + '.accept-polling',
                '%s: an accepted polling open marks the session connected and answers with what '
                'is queued (OPEN first)' % fl['name'], site, key='%s-connect-polling'
                % fl['name'], detail=v.describe(60))
        # cookie
        cookie = ('self.cookie', True) in v.guard_atoms()
        okc = None
        if p.outcome == 'return' and polls:
            rc = unawait(p.value)
            kws = {k.arg: k.value for k in rc.keywords} if isinstance(rc, ast.Call) else {}
            okr = isinstance(rc, ast.Call) and txt(rc.func) == 'self._ok' and rc.args and \
                txt(rc.args[0]) == S + '.poll()' and txt(kws.get('jsonp_index')) == 'jsonp_index'
            A.check(okr, rule + '.accept-polling', '%s: the OPEN response is _ok(s.poll(), '
                    'headers, jsonp_index)' % fl['name'], site,
                    key='%s-connect-ok-call' % fl['name'], detail=txt(rc))
            hd = kws.get('headers')
            if cookie:
                isd = ('isinstance(self.cookie, dict)', True) in v.guard_atoms()
                want = ("[('Set-Cookie', self._generate_sid_cookie(%s, self.cookie))]" % SID) if isd \
                    else ("[('Set-Cookie', self._generate_sid_cookie(%s, {'name': self.cookie, "
                          "'path': '/', 'SameSite': 'Lax'}))]" % SID)
                A.check(txt(hd) == want, rule + '.cookie', '%s: a configured cookie is set with '
                        'the sid and the configured attributes' % fl['name'], site,
                        key='%s-cookie-set' % fl['name'], detail=txt(hd),
                        behaviour='the session cookie carries another id / wrong attributes')
            else:
                A.check(hd is None or txt(hd) == 'None', rule + '.cookie', '%s: no cookie is set '
                        'when none is configured' % fl['name'], site,
                        key='%s-cookie-unset' % fl['name'], detail=txt(hd),
                        behaviour='a session cookie is sent although none is configured')
    A.floor(rule, '%s accepted polling opens' % fl['name'], n_acc, 3)
    A.floor(rule, '%s rejected opens' % fl['name'], n_rej, 1)
    A.floor(rule, '%s websocket opens' % fl['name'], n_ws, 1)
    A.sample({'rule': rule + '.open-fields', 'flavour': fl['name'],
              'pingInterval': 'int((ping_interval + grace) * 1000)'})


def upgrades_rule(A, rule):
    fi = A.func('base_server.BaseServer._upgrades')
    for fl in FLAVOURS:
        srv = A.model.cls(fl['server'])
        ps = [p for p in A.paths(A.enum(), fi, srv) if p.outcome != 'cut' and
              not any(e.kind == 'exc' for e in p.events)]
        n = 0
        need = [('self.allow_upgrades', True), ('self._get_socket(sid).upgraded', False),
                ("transport == 'websocket'", False), ("'websocket' in self.transports", True),
                ("self._async['websocket'] is None", False)]
        why = ['upgrades are disabled', 'the session is already on WebSocket',
               'the connection is already a WebSocket', 'websocket is not an allowed transport',
               'the async mode has no WebSocket support']
        for p in ps:
            v = PV(p)
            if p.outcome != 'return':
                continue
            rv = txt(p.value)
            if rv == '[]':
                continue
            n += 1
            ga = v.guard_atoms()
            A.check(rv == "['websocket']", rule + '.advertise', 'the only advertised upgrade is '
                    'websocket', A.site(fi), key='upgrades-value', detail=rv)
            for g, w in zip(need, why):
                A.check(g in ga, rule + '.advertise=>accept',
                        '%s: websocket is advertised only if an upgrade request would be '
                        'accepted - not when %s' % (fl['name'], w), A.site(fi),
                        key='upgrades-guard:%s' % g[0], detail=v.describe(),
                        behaviour='OPEN advertises an upgrade that the server then refuses (400): '
                                  'every client wastes a failing upgrade attempt')
        A.floor(rule, '_upgrades advertising paths', n, 1)


def sid_cookie_rule(A, rule):
    fi = A.func('base_server.BaseServer._generate_sid_cookie')
    en = A.enum(loop_bound=1)
    ps = [p for p in A.paths(en, fi, fi.cls) if p.outcome == 'return']
    from sa.terms import flatten_concat, merge_consts
    ok_name = ok_attr = False
    for p in ps:
        parts = [txt(x) for x in merge_consts(flatten_concat(p.value))]
        if parts[:3] == ["attributes.get('name', 'io')", "'='", 'sid']:
            ok_name = True
        else:
            A.violated(rule + '.cookie', 'the cookie is <name>=<sid> followed by the attributes',
                       A.site(fi), key='cookie-head', detail=parts)
        rest = parts[3:]
        v = PV(p)
        if rest:
            el = '_elem(attributes.items(), 0)'
            flag = [("'; '", el + '[0]')]
            kv = ["'; '", el + '[0]', "'='"]
            if rest[:2] == ["'; '", el + '[0]'] and len(rest) == 2:
                A.check(any(a.endswith(' is True') and pl for a, pl in v.guard_atoms()),
                        rule + '.cookie', 'a True attribute is rendered as a bare flag',
                        A.site(fi), key='cookie-flag', detail=v.describe())
                ok_attr = True
            elif rest[:3] == kv and len(rest) == 4:
                ok_attr = True
            else:
                A.violated(rule + '.cookie', 'attributes are rendered as "; name" or '
                           '"; name=value"', A.site(fi), key='cookie-attr', detail=rest)
            A.check((el + "[0] == 'name'", False) in v.guard_atoms(), rule + '.cookie',
                    "the 'name' entry is not rendered as an attribute", A.site(fi),
                    key='cookie-name-skip', detail=v.describe())
    A.check(ok_name and ok_attr, rule + '.cookie', 'cookie rendering recognised', A.site(fi),
            key='cookie-shape')
