"""Rules over Server / AsyncServer / BaseServer, shared by C05, C11-C13, C15-C19."""
import ast
import re

from sa.absval import AbsEval, Const, Kind
from sa.expr import txt, match, atom, unawait, linear, int_ordering, ordering, dotted
from sa.model import AnalysisError, exc_is_subclass
from .common import assume_from, describe, placeholder_bind, or_default
from .seq import PV, guards_matching, own_nodes, eq_guard
from .sockrules import FLAVOURS, pconsts, packet_ctor, evaluator


def parents_map(root):
    pm = {}
    for n in ast.walk(root):
        for c in ast.iter_child_nodes(n):
            pm[c] = n
    return pm


# ---------------------------------------------------------------------------------------
# _trigger_event: containment of handler exceptions, sync / background dispatch
# ---------------------------------------------------------------------------------------
def _is_handler_call(n):
    n = unawait(n)
    return isinstance(n, ast.Call) and isinstance(n.func, ast.Subscript) and \
        txt(n.func.value) == 'self.handlers'


def trigger_event_rules(A, fl, rule, cls_key='server'):
    """cls_key 'server' (server flavours) or 'cls' (client flavours: containment and the
    legacy retry only)."""
    fi = A.func(fl[cls_key] + '._trigger_event')
    pm = parents_map(fi.node)
    n_calls = 0
    for n in ast.walk(fi.node):
        if not _is_handler_call(n):
            continue
        n_calls += 1
        if cls_key != 'server':
            # a client runs run_async handlers as tasks of their own: a nested function that
            # only calls the handler is such a task body, an exception stays in the task
            cur, nested = n, False
            while cur in pm:
                cur = pm[cur]
                if isinstance(cur, (ast.FunctionDef, ast.AsyncFunctionDef)):
                    nested = cur is not fi.node
                    break
            if nested:
                continue
        # climb: the call must sit in the *body* of a try with a bare (or BaseException) handler
        cur = n
        covered = None
        while cur in pm:
            par = pm[cur]
            if isinstance(par, ast.Try) and any(cur is st or _contains(st, cur) for st in par.body):
                for h in par.handlers:
                    if h.type is None or (isinstance(h.type, ast.Name) and
                                          h.type.id == 'BaseException'):
                        covered = (par, h)
                        break
                if covered:
                    break
            if isinstance(par, (ast.FunctionDef, ast.AsyncFunctionDef)):
                break
            cur = par
        what = '%s: the application handler call %s is contained by a catch-all' % (
            fl['name'], txt(n))
        A.check(covered is not None, rule + '.containment', what, A.site(fi, n),
                key='%s-handler-uncontained' % fl['name'],
                behaviour='an exception raised by a handler (also in the legacy one-argument '
                          'disconnect retry, or a BaseException such as a timeout) escapes: the '
                          'session close is aborted half way / the request fails without response')
        if covered:
            h = covered[1]
            bad = [x for st in h.body for x in ast.walk(st) if isinstance(x, ast.Raise)]
            A.check(not bad, rule + '.containment', '%s: the catch-all does not re-raise'
                    % fl['name'], A.site(fi, h), key='%s-handler-reraise' % fl['name'],
                    behaviour='handler exceptions propagate into the engine')
            # beside the catch-all, the only clause that may swallow an exception of the
            # handler without a verdict is the one for task cancellation
            from sa.cfg import _handler_names
            for h2 in covered[0].handlers:
                if h2 is h:
                    continue
                swallow = not any(isinstance(x, (ast.Return, ast.Raise))
                                  for st in h2.body for x in ast.walk(st))
                names = _handler_names(h2) or []
                if swallow:
                    A.check(names == ['CancelledError'], rule + '.connect-raises-rejects',
                            '%s: only task cancellation is swallowed without a verdict; every '
                            'other exception of a handler goes to the catch-all' % fl['name'],
                            A.site(fi, h2), key='%s-handler-swallow' % fl['name'],
                            detail=names,
                            behaviour='a connect handler that fails with that exception (e.g. a '
                                      'timeout of its own) lets the client in')
            if cls_key != 'server':
                continue        # clients have no connect verdict
            rets = [x for st in h.body for x in ast.walk(st) if isinstance(x, ast.Return)]
            ok = True
            for r in rets:
                # only ``return False`` under ``event == 'connect'``
                g = pm.get(r)
                ok = ok and match('False', r.value) is not None and isinstance(g, ast.If) and \
                    match("event == 'connect'", g.test) is not None
            A.check(ok and bool(rets), rule + '.connect-raises-rejects',
                    '%s: an exception in the connect handler rejects the connection (returns '
                    'False), for other events nothing is returned' % fl['name'], A.site(fi, h),
                    key='%s-handler-catch-return' % fl['name'],
                    behaviour='a connect handler that raises lets the client in / an exception in '
                              'a message handler is turned into a value')
    A.floor(rule, '%s handler call sites in _trigger_event' % fl['name'], n_calls, 2)
    # the legacy one-argument retry exists for the disconnect event only
    n_retry = 0
    nargs = 2 if cls_key == 'server' else 1     # (sid, reason) / (reason)
    for n in ast.walk(fi.node):
        if _is_handler_call(n):
            # a retry: a handler call inside an ``except TypeError`` clause
            cur, in_te = n, False
            while cur in pm:
                par = pm[cur]
                if isinstance(par, ast.ExceptHandler) and par.type is not None and \
                        'TypeError' in txt(par.type):
                    in_te = True
                    break
                if isinstance(par, (ast.FunctionDef, ast.AsyncFunctionDef)):
                    break
                cur = par
            c = unawait(n)
            if in_te or not any(isinstance(a, ast.Starred) for a in c.args):
                n_retry += 1
                cur, ok = n, False
                texts = set()
                while cur in pm:
                    par = pm[cur]
                    if isinstance(par, ast.If) and any(cur is st or _contains(st, cur)
                                                       for st in par.body):
                        # conditions of all enclosing ifs count (one ``and`` or nested ifs)
                        t = par.test
                        conj = t.values if isinstance(t, ast.BoolOp) and \
                            isinstance(t.op, ast.And) else [t]
                        texts |= {txt(x) for x in conj}
                    if isinstance(par, (ast.FunctionDef, ast.AsyncFunctionDef)):
                        break
                    cur = par
                ok = "event == 'disconnect'" in texts and ('len(args) == %d' % nargs) in texts
                # the retry passes everything but the reason
                passed = [txt(a) for a in c.args]
                ok_args = passed in ([], ['args[0]'], ['*args[:-1]'], ['*args[:1]']) and \
                    (nargs == 2) == bool(passed) or passed == ['*args[:-1]']
                A.check(ok and ok_args, rule + '.legacy-retry', "%s: the handler is re-invoked "
                        "without the reason argument only for a 'disconnect' event (fired with "
                        '%d argument%s) whose handler raised TypeError'
                        % (fl['name'], nargs, '' if nargs == 1 else 's'), A.site(fi, n),
                        key='%s-legacy-retry-guard' % fl['name'], detail=txt(n),
                        behaviour='a message handler that raises TypeError is called a second '
                                  'time (with the payload dropped), or a legacy disconnect '
                                  'handler is never called: the event fires twice / not at all')
    A.floor(rule, '%s legacy retry call sites' % fl['name'], n_retry, 1)
    if cls_key != 'server':
        return
    # dispatch mode
    sock = A.model.cls(fl[cls_key])
    en = A.enum(follow_handlers=False)
    ps = [p for p in A.paths(en, fi, sock) if p.outcome != 'cut']
    n_bg = n_inline = 0
    runners = set(fi.nested)
    for p in ps:
        v = PV(p)
        if ('event in self.handlers', True) not in v.guard_atoms():
            A.check(not v.effects(0)[1:] and p.outcome == 'return', rule + '.no-handler',
                    '%s: an event without handler does nothing' % fl['name'], A.site(fi),
                    key='%s-trigger-nohandler' % fl['name'], detail=v.describe())
            continue
        bg = [(i, c) for i, c in v.calls('self.start_background_task(_f)')
              if txt(c['f']) in runners]
        inline = [i for i, e in enumerate(v.ev) if e.kind == 'call' and e.depth == 0 and
                  txt(unawait(e.expr).func) in runners]
        ra = [pl for a, pl in v.guard_atoms() if a in ("kwargs.pop('run_async', False)",
                                                       'run_async')]
        if not ra:
            A.undecided(rule + '.dispatch', '%s: dispatch mode guard recognised' % fl['name'],
                        A.site(fi), v.describe())
            continue
        if ra[0]:
            n_bg += 1
            A.check(len(bg) == 1 and not inline, rule + '.dispatch',
                    '%s: run_async=True starts exactly one background task for the handler'
                    % fl['name'], A.site(fi), key='%s-trigger-bg' % fl['name'],
                    detail=v.describe(), behaviour='a message event fires twice or never')
        else:
            n_inline += 1
            A.check(len(inline) == 1 and not bg, rule + '.dispatch',
                    '%s: run_async=False runs the handler inline, once' % fl['name'], A.site(fi),
                    key='%s-trigger-inline' % fl['name'], detail=v.describe(),
                    behaviour='connect/disconnect handlers do not complete before the engine '
                              'proceeds (or run twice)')
            rv = txt(p.value)
            A.check(any(rv == txt(v.ev[i].expr) for i in inline) and len(inline) == 1,
                    rule + '.dispatch', "%s: the inline handler's return value is returned"
                    % fl['name'], A.site(fi), key='%s-trigger-retval' % fl['name'],
                    detail=['returns ' + rv] + v.describe(),
                    behaviour='the connect handler verdict is lost')
    A.floor(rule, '%s _trigger_event dispatch paths' % fl['name'], min(n_bg, n_inline), 1)


def _contains(root, node):
    return any(x is node for x in ast.walk(root))


# ---------------------------------------------------------------------------------------
# _handle_connect: OPEN handshake
# ---------------------------------------------------------------------------------------
def _ms(expr):
    """linear form X of an expression int(X * 1000) (either operand order), else None."""
    c = match('int(_x * 1000)', expr) or match('int(1000 * _x)', expr)
    if c is None:
        return None
    return linear(c['x'])


def handle_connect_rules(A, fl, rule):
    P = pconsts(A)
    fi = A.func(fl['server'] + '._handle_connect')
    srv = A.model.cls(fl['server'])
    sockname = fl['socket'].split('.')[-1]
    en = A.enum(follow_handlers=True, max_paths=40000)
    ps = [p for p in A.paths(en, fi, srv) if p.outcome != 'cut']
    SID = 'self.generate_id()'
    S = '%s.%s(self, %s)' % (fl['smod'], sockname, SID)
    n_acc = n_rej = n_ws = n_bad_order = 0
    for p in ps:
        v = PV(p)
        if any(e.kind == 'exc' and e.cls is not None for e in v.ev):
            continue
        site = A.site(fi)
        gen = v.calls('self.generate_id()')
        ctor = v.calls('%s.%s(self, _sid)' % (fl['smod'], sockname))
        store = [(i, val) for i, val in v.writes('self.sockets[%s]' % SID)]
        A.check(len(gen) == 1 and len(ctor) == 1 and txt(ctor[0][1]['sid']) == SID and
                len(store) == 1 and store[0][1] == S, rule + '.one-session',
                '%s: an open creates exactly one session under one freshly generated id'
                % fl['name'], site, key='%s-connect-one-session' % fl['name'],
                detail=v.describe(50), behaviour='two sessions / two ids for one open request')
        if not (gen and ctor and store):
            continue
        sends = v.calls(S + '.send(_p)')
        trig = v.calls("self._trigger_event('connect', ___)")
        sched = v.calls(S + '.schedule_ping()')
        ok = len(sends) >= 1 and len(trig) == 1 and len(sched) == 1 and \
            store[0][0] < sends[0][0] < trig[0][0] and sends[0][0] < sched[0][0]
        A.check(ok, rule + '.open-first', '%s: the OPEN packet is queued (and the heartbeat '
                'armed) after the session is stored and before the connect handler runs'
                % fl['name'], site, key='%s-connect-order' % fl['name'], detail=v.describe(50),
                behaviour='the connect handler runs before the session exists / another packet '
                          'precedes OPEN / no PING is ever scheduled')
        if not ok:
            n_bad_order += 1
            continue
        tc = unawait(v.ev[trig[0][0]].expr)
        A.check(len(tc.args) == 3 and txt(tc.args[1]) == SID and txt(tc.args[2]) == 'environ' and
                any(k.arg == 'run_async' and match('False', k.value) is not None
                    for k in tc.keywords), rule + '.connect-event',
                '%s: the connect handler gets the same sid and the request environ, synchronously'
                % fl['name'], A.site(fi, v.node(trig[0][0])),
                key='%s-connect-event-args' % fl['name'], detail=txt(tc),
                behaviour='the application is told a different id than the client')
        # OPEN packet contents
        opn = unawait(sends[0][1]['p'])
        pc = packet_ctor(A, fi, opn)
        okp = pc is not None and pc[0] == P['OPEN'] and isinstance(pc[1], ast.Dict)
        if okp:
            d = {ast.literal_eval(k): val for k, val in zip(pc[1].keys, pc[1].values)
                 if isinstance(k, ast.Constant)}
            exp_keys = {'sid', 'upgrades', 'pingTimeout', 'pingInterval', 'maxPayload'}
            A.check(set(d) == exp_keys, rule + '.open-fields', '%s: OPEN carries sid, upgrades, '
                    'pingTimeout, pingInterval, maxPayload' % fl['name'], site,
                    key='%s-open-keys' % fl['name'], detail=sorted(d))
            if set(d) == exp_keys:
                A.check(txt(d['sid']) == SID, rule + '.open-fields', '%s: OPEN.sid is the session '
                        'id' % fl['name'], site, key='%s-open-sid' % fl['name'],
                        detail=txt(d['sid']), behaviour='the client addresses a different session')
                A.check(txt(d['upgrades']) == 'self._upgrades(%s, transport)' % SID,
                        rule + '.open-fields', '%s: OPEN.upgrades comes from _upgrades(sid, '
                        'transport)' % fl['name'], site, key='%s-open-upgrades' % fl['name'],
                        detail=txt(d['upgrades']))
                A.check(_ms(d['pingTimeout']) == ({'self.ping_timeout': 1}, 0),
                        rule + '.open-timing', '%s: pingTimeout = int(ping_timeout * 1000)'
                        % fl['name'], site, key='%s-open-pingtimeout' % fl['name'],
                        detail=txt(d['pingTimeout']),
                        behaviour='the client is told a different timeout than the server uses')
                A.check(_ms(d['pingInterval']) == ({'self.ping_interval': 1,
                                                    'self.ping_interval_grace_period': 1}, 0),
                        rule + '.open-timing', '%s: pingInterval = int((ping_interval + grace) * '
                        '1000): scaled to milliseconds before truncation' % fl['name'], site,
                        key='%s-open-pinginterval' % fl['name'], detail=txt(d['pingInterval']),
                        behaviour='fractional intervals are announced rounded down to whole '
                                  'seconds (0.5 s as 0 ms): the client times out a live server')
                A.check(txt(d['maxPayload']) == 'self.max_http_buffer_size', rule + '.open-fields',
                        '%s: maxPayload = max_http_buffer_size' % fl['name'], site,
                        key='%s-open-maxpayload' % fl['name'], detail=txt(d['maxPayload']))
        else:
            A.check(False, rule + '.open-first', '%s: the first packet sent is OPEN with a dict'
                    % fl['name'], site, key='%s-open-packet' % fl['name'], detail=txt(opn))
        # verdict of the connect handler
        ret_t = txt(v.ev[trig[0][0]].expr)
        rej = (ret_t + ' is None', False) in v.guard_atoms() and \
            (ret_t + ' is True', False) in v.guard_atoms()
        if rej:
            n_rej += 1
            dels = [i for i, e in enumerate(v.ev) if e.kind == 'del' and
                    txt(e.target) == 'self.sockets[%s]' % SID]
            after = [x for i, x in v.effects(0) if i > trig[0][0] and
                     any(k in x for k in ('.poll()', 'handle_get_request', '_ok('))]
            ua = match('self._unauthorized(_a)', unawait(p.value)) if p.value is not None else None
            A.check(p.outcome == 'return' and ua is not None and
                    or_default(p, txt(ua['a']), ret_t, 'None') and dels and
                    not after and not [i for i, val in v.writes(S + '.connected')],
                    rule + '.reject', '%s: a rejected connection is removed from the table and '
                    'answered 401 carrying the handler value; nothing else happens' % fl['name'],
                    site, key='%s-connect-reject' % fl['name'], detail=v.describe(60),
                    behaviour='a rejected session stays addressable / is served')
            continue
        A.check((ret_t + ' is None', True) in v.guard_atoms() or
                (ret_t + ' is True', True) in v.guard_atoms(), rule + '.accept',
                '%s: a session is served only if the connect handler returned None or True'
                % fl['name'], site, key='%s-connect-accept-guard' % fl['name'],
                detail=v.describe(60), behaviour='False / a message value lets the client in')
        if ("transport == 'websocket'", True) in v.guard_atoms():
            n_ws += 1
            hg = v.calls(S + '.handle_get_request(___)')
            A.check(len(hg) == 1 and hg[0][0] > trig[0][0], rule + '.accept-ws',
                    '%s: an accepted WebSocket open is handed to the WebSocket handler'
                    % fl['name'], site, key='%s-connect-ws' % fl['name'], detail=v.describe(60))
            if (S + '.closed', True) in v.guard_atoms() and \
                    (SID + ' in self.sockets', True) in v.guard_atoms():
                dels = [i for i, e in enumerate(v.ev) if e.kind == 'del']
                A.check(bool(dels), 'C16.reap-ws' if rule.startswith('C16') else rule + '.reap-ws',
                        '%s: a finished WebSocket session is removed from the table' % fl['name'],
                        site, key='%s-connect-ws-reap' % fl['name'], detail=v.describe(60))
            continue
        n_acc += 1
        conn = [i for i, val in v.writes(S + '.connected') if val == 'True']
        polls = v.calls(S + '.poll()')
        A.check(conn and polls and trig[0][0] < conn[0] < polls[0][0], rule + '.accept-polling',
                '%s: an accepted polling open marks the session connected and answers with what '
                'is queued (OPEN first)' % fl['name'], site, key='%s-connect-polling'
                % fl['name'], detail=v.describe(60))
        # cookie
        cookie = ('self.cookie', True) in v.guard_atoms()
        okc = None
        if p.outcome == 'return' and polls:
            rc = unawait(p.value)
            kws = {k.arg: k.value for k in rc.keywords} if isinstance(rc, ast.Call) else {}
            okr = isinstance(rc, ast.Call) and txt(rc.func) == 'self._ok' and rc.args and \
                txt(rc.args[0]) == S + '.poll()' and txt(kws.get('jsonp_index')) == 'jsonp_index'
            A.check(okr, rule + '.accept-polling', '%s: the OPEN response is _ok(s.poll(), '
                    'headers, jsonp_index)' % fl['name'], site,
                    key='%s-connect-ok-call' % fl['name'], detail=txt(rc))
            hd = kws.get('headers')
            if cookie:
                isd = ('isinstance(self.cookie, dict)', True) in v.guard_atoms()
                want = ("[('Set-Cookie', self._generate_sid_cookie(%s, self.cookie))]" % SID) if isd \
                    else ("[('Set-Cookie', self._generate_sid_cookie(%s, {'name': self.cookie, "
                          "'path': '/', 'SameSite': 'Lax'}))]" % SID)
                A.check(txt(hd) == want, rule + '.cookie', '%s: a configured cookie is set with '
                        'the sid and the configured attributes' % fl['name'], site,
                        key='%s-cookie-set' % fl['name'], detail=txt(hd),
                        behaviour='the session cookie carries another id / wrong attributes')
            else:
                A.check(hd is None or txt(hd) == 'None', rule + '.cookie', '%s: no cookie is set '
                        'when none is configured' % fl['name'], site,
                        key='%s-cookie-unset' % fl['name'], detail=txt(hd),
                        behaviour='a session cookie is sent although none is configured')
    # the monitor is armed by every kind of open (polling, websocket, rejected alike)
    for p in ps:
        v = PV(p)
        if any(e.kind == 'exc' and e.cls is not None for e in v.ev):
            continue
        ga = set(v.guard_atoms())
        started = v.calls('self.start_background_task(self._service_task)')
        gen = v.calls('self.generate_id()')
        ok = ('self.start_service_task', False) in ga or \
            (('self.start_service_task', True) in ga and len(started) == 1 and
             (not gen or started[0][0] < gen[0][0]))
        A.check(ok, rule + '.monitor-armed', '%s: whatever the transport of the open, the first '
                'connect starts the monitoring task (when monitoring is on) before the session '
                'is created' % fl['name'], A.site(fi), key='%s-connect-monitor' % fl['name'],
                detail=v.describe(40),
                behaviour='with WebSocket-only clients the sweep never runs: vanished clients '
                          'are detected late or never')
    if not n_bad_order:
        A.floor(rule, '%s accepted polling opens' % fl['name'], n_acc, 3)
        A.floor(rule, '%s rejected opens' % fl['name'], n_rej, 1)
        A.floor(rule, '%s websocket opens' % fl['name'], n_ws, 1)
    A.sample({'rule': rule + '.open-fields', 'flavour': fl['name'],
              'pingInterval': 'int((ping_interval + grace) * 1000)'})


def upgrades_rule(A, rule):
    fi = A.func('base_server.BaseServer._upgrades')
    for fl in FLAVOURS:
        srv = A.model.cls(fl['server'])
        ps = [p for p in A.paths(A.enum(), fi, srv) if p.outcome != 'cut' and
              not any(e.kind == 'exc' for e in p.events)]
        n = 0
        need = [('self.allow_upgrades', True), ('self._get_socket(sid).upgraded', False),
                ("transport == 'websocket'", False), ("'websocket' in self.transports", True),
                ("self._async['websocket'] is None", False)]
        why = ['upgrades are disabled', 'the session is already on WebSocket',
               'the connection is already a WebSocket', 'websocket is not an allowed transport',
               'the async mode has no WebSocket support']
        for p in ps:
            v = PV(p)
            if p.outcome != 'return':
                continue
            rv = txt(p.value)
            if rv == '[]':
                continue
            n += 1
            ga = v.guard_atoms()
            A.check(rv == "['websocket']", rule + '.advertise', 'the only advertised upgrade is '
                    'websocket', A.site(fi), key='upgrades-value', detail=rv)
            for g, w in zip(need, why):
                A.check(g in ga, rule + '.advertise=>accept',
                        '%s: websocket is advertised only if an upgrade request would be '
                        'accepted - not when %s' % (fl['name'], w), A.site(fi),
                        key='upgrades-guard:%s' % g[0], detail=v.describe(),
                        behaviour='OPEN advertises an upgrade that the server then refuses (400): '
                                  'every client wastes a failing upgrade attempt')
        A.floor(rule, '_upgrades advertising paths', n, 1)


def sid_cookie_rule(A, rule):
    fi = A.func('base_server.BaseServer._generate_sid_cookie')
    en = A.enum(loop_bound=1)
    ps = [p for p in A.paths(en, fi, fi.cls) if p.outcome == 'return']
    from sa.terms import flatten_concat, merge_consts
    ok_name = ok_attr = False
    for p in ps:
        parts = [txt(x) for x in merge_consts(flatten_concat(p.value))]
        if parts[:3] == ["attributes.get('name', 'io')", "'='", 'sid']:
            ok_name = True
        else:
            A.violated(rule + '.cookie', 'the cookie is <name>=<sid> followed by the attributes',
                       A.site(fi), key='cookie-head', detail=parts)
        rest = parts[3:]
        v = PV(p)
        if rest:
            el = '_elem(attributes.items(), 0)'
            flag = [("'; '", el + '[0]')]
            kv = ["'; '", el + '[0]', "'='"]
            if rest[:2] == ["'; '", el + '[0]'] and len(rest) == 2:
                A.check(any(a.endswith(' is True') and pl for a, pl in v.guard_atoms()),
                        rule + '.cookie', 'a True attribute is rendered as a bare flag',
                        A.site(fi), key='cookie-flag', detail=v.describe())
                ok_attr = True
            elif rest[:3] == kv and len(rest) == 4:
                ok_attr = True
            else:
                A.violated(rule + '.cookie', 'attributes are rendered as "; name" or '
                           '"; name=value"', A.site(fi), key='cookie-attr', detail=rest)
            A.check((el + "[0] == 'name'", False) in v.guard_atoms(), rule + '.cookie',
                    "the 'name' entry is not rendered as an attribute", A.site(fi),
                    key='cookie-name-skip', detail=v.describe())
    A.check(ok_name and ok_attr, rule + '.cookie', 'cookie rendering recognised', A.site(fi),
            key='cookie-shape')


# ---------------------------------------------------------------------------------------
# handle_request: admission chain
# ---------------------------------------------------------------------------------------
REQ_DEFS = {
    'method': ["environ['REQUEST_METHOD']"],
    'query': ["urllib.parse.parse_qs(environ.get('QUERY_STRING', ''))"],
    'transport': ["query.get('transport', ['polling'])[0]"],
    # conditional definitions: (guard atom, value when it holds, value when it does not);
    # ``x = a if c else b`` and ``if c: x = a else: x = b`` are the same paths
    'sid': [("'sid' in query", "query['sid'][0]", 'None'), "query.get('sid', [None])[0]"],
    'upgrade_header': [("'HTTP_UPGRADE' in environ", "environ.get('HTTP_UPGRADE').lower()",
                        'None'),
                       ("environ.get('HTTP_UPGRADE')", "environ.get('HTTP_UPGRADE').lower()",
                        'None'),
                       ("environ.get('HTTP_UPGRADE') is None", 'None',
                        "environ.get('HTTP_UPGRADE').lower()")],
    'origin': ["environ.get('HTTP_ORIGIN')"],
    'allowed_origins': ['self._cors_allowed_origins(environ)'],
    'socket': ['self._get_socket(sid)'],
    'packets': ['socket.handle_get_request(environ, start_response)',
                'socket.handle_get_request(environ)'],
}
SINKS = {
    'connect': 'self._handle_connect(___)',
    'get': 'socket.handle_get_request(___)',
    'post': 'socket.handle_post_request(___)',
}


def _def_text(d):
    return d if isinstance(d, str) else '%s if %s else %s' % (d[1], d[0], d[2])


def _def_ok(p, idx, value, alts):
    """Is ``value`` (bound at event idx of path p) one of the accepted definitions?  A
    conditional definition is accepted when the path took the matching branch of its guard
    before the binding."""
    if value == 'None' and placeholder_bind(p, idx) and \
            not any(isinstance(d, tuple) for d in alts):
        return True
    for d in alts:
        if isinstance(d, str):
            if value == d:
                return True
            continue
        g, vt, vf = d
        pol = None
        for e in (p.events if value == 'None' else p.events[:idx]):
            if e.kind == 'guard' and e.depth == 0:
                a, pl = atom(e.expr, e.pol)
                if a == g:
                    pol = pl
        if pol is not None and value == (vt if pol else vf):
            return True
    return False


def request_paths(A, fl):
    cache = A.__dict__.setdefault('_request_paths', {})
    key = fl['name']
    if key in cache:
        return cache[key]
    fi = A.func(fl['server'] + '.handle_request')
    srv = A.model.cls(fl['server'])

    def opaque(st, f):
        return isinstance(st, ast.If) and 'self.http_compression' in ast.unparse(st.test)
    keep = set(REQ_DEFS) | {'environ', 'r', 'translate_request'}
    en = A.enum(opaque=opaque, keep=keep, max_paths=150000)
    ps = [p for p in A.paths(en, fi, srv) if p.outcome != 'cut']
    cache[key] = (fi, srv, ps)
    return cache[key]


def all_equal(ga, items):
    """Do the equality atoms that hold on the path (a == b, True) put all items into one
    equivalence class?"""
    parent = {}

    def find(x):
        parent.setdefault(x, x)
        while parent[x] != x:
            parent[x] = parent[parent[x]]
            x = parent[x]
        return x
    for a, pl in ga:
        if pl and a.count(' == ') == 1:
            l, r = a.split(' == ')
            parent[find(l)] = find(r)
    return len({find(i) for i in items}) == 1


def _origin_ok(ga):
    return ('self.cors_allowed_origins == []', True) in ga or ('origin', False) in ga or \
        ('allowed_origins is None', True) in ga or ('origin in allowed_origins', True) in ga


def _first(v, pred):
    for i, e in enumerate(v.ev):
        if pred(e):
            return i
    return None


def admission_rules(A, fl, rule, parts=('defs', 'sinks', 'inert', 'origin', 'responses')):
    fi, srv, ps = request_paths(A, fl)
    site = A.site(fi)
    name = fl['name']
    # ---- definitions of the request attributes
    if 'defs' in parts:
        seen = {}
        for p in ps:
            for i, e in enumerate(p.events):
                if e.kind == 'bind' and e.depth == 0:
                    nm, d = txt(e.target), txt(e.expr)
                    ok = nm not in REQ_DEFS or _def_ok(p, i, d, REQ_DEFS[nm])
                    prev = seen.setdefault(nm, {}).get(d)
                    if prev is None or (prev[0] and not ok):
                        seen[nm][d] = (ok, e)
        for nm, defs in sorted(seen.items()):
            if nm in REQ_DEFS:
                for d, (ok, e) in defs.items():
                    A.check(ok, rule + '.request-attrs',
                            '%s: request attribute %s is derived as %s'
                            % (name, nm, _def_text(REQ_DEFS[nm][0])),
                            A.site(fi, e.node), key='%s-def-%s' % (name, nm), detail=d,
                            behaviour='the admission chain tests something else than the '
                                      'request it then serves')
        for nm in ('method', 'query', 'transport', 'sid'):
            A.check(nm in seen, rule + '.request-attrs', '%s: %s is extracted from the request'
                    % (name, nm), site, key='%s-def-missing-%s' % (name, nm))
    counts = {'connect': 0, 'get': 0, 'post': 0, 'options': 0, '405': 0, 'refused': 0,
              'origin-refused': 0}
    for p in ps:
        v = PV(p, depth=0)
        ga = set(v.guard_atoms())
        sink = None
        si = None
        for k, pat in SINKS.items():
            c = v.calls(pat, depth=0)
            if c:
                sink, si = k, c[0][0]
                break
        gi_before = None
        if si is not None:
            ga_before = set(atom(e.expr, e.pol) for e in v.ev[:si] if e.kind == 'guard')
        rbinds = [(i, txt(e.expr)) for i, e in enumerate(v.ev) if e.kind == 'bind' and
                  txt(e.target) == 'r']
        # ---- origin gate first (C13)
        if 'origin' in parts:
            qi = _first(v, lambda e: (e.kind == 'bind' and txt(e.target) in
                                      ('query', 'method', 'sid', 'transport')) or
                        (e.kind == 'call' and ('self.sockets' in txt(e.expr) or
                                               '_get_socket' in txt(e.expr))) or
                        (e.kind == 'guard' and 'self.sockets' in txt(e.expr)))
            refused = ('allowed_origins is None', False) in ga and \
                ('origin in allowed_origins', False) in ga
            if refused:
                counts['origin-refused'] += 1
                eff = [x for i, x in v.effects(0)]
                okeff = all(any(x.startswith(a) for a in (
                    'environ.get(', 'self._cors_allowed_origins(', 'self._log_error_once(',
                    'self._bad_request(', 'start_response(', 'self._make_response(',
                    'translate_request(', 'asyncio.iscoroutinefunction(',
                    "self._async['translate_request']")) for x in eff)
                resp = [x for x in eff if x.startswith('self._bad_request(')]
                A.check(qi is None and okeff and resp and p.outcome == 'return' and
                        sink is None, rule + '.gate-first',
                        '%s: a request with a disallowed Origin is answered 400 at once: no '
                        'query parsing, no session lookup, no handler' % name, site,
                        key='%s-origin-refusal' % name, detail=v.describe(40),
                        behaviour='a cross-origin request is processed before (or in spite of) '
                                  'the origin check')
            else:
                if qi is not None:
                    gi = [i for i, e in enumerate(v.ev[:qi]) if e.kind == 'guard' and
                          atom(e.expr, e.pol) in (
                              ('self.cors_allowed_origins == []', True), ('origin', False),
                              ('allowed_origins is None', True),
                              ('origin in allowed_origins', True))]
                    A.check(bool(gi), rule + '.gate-first',
                            '%s: the origin check is decided before the request is looked at '
                            '(query, session table)' % name, A.site(fi, v.node(qi)),
                            key='%s-origin-gate-order' % name, detail=v.describe(40),
                            behaviour='requests with a foreign Origin reach session lookup / '
                                      'handlers: the origin policy can be bypassed')
        if 'sinks' not in parts and 'inert' not in parts and 'responses' not in parts:
            continue
        if sink is not None:
            counts[sink] += 1
            need = [('transport in self.transports', True)]
            alts = []
            if sink == 'connect':
                need += [("method == 'GET'", True), ('sid is None', True),
                         ("query.get('EIO') == ['4']", True)]
                alts = [[("transport == 'polling'", True)],
                        ('equal', ['transport', 'upgrade_header', "'websocket'"])]
            elif sink == 'get':
                need += [("method == 'GET'", True), ('sid is None', False),
                         ('sid in self.sockets', True)]
                alts = [('equal', ['self.transport(sid)', 'transport']),
                        ('equal', ['transport', 'upgrade_header'])]
            elif sink == 'post':
                need += [("method == 'POST'", True), ('sid is None', False),
                         ('sid in self.sockets', True)]
            if 'sinks' in parts:
                miss = [g for g in need if g not in ga_before]
                okalt = not alts or any(
                    all_equal(ga_before, alt[1]) if isinstance(alt, tuple)
                    else all(g in ga_before for g in alt) for alt in alts)
                A.check(not miss and okalt and _origin_ok(ga_before), rule + '.admission',
                        '%s: a request is %s only after every admission test passed (%s)'
                        % (name, {'connect': 'opened', 'get': 'served as poll/upgrade',
                                  'post': 'accepted as POST'}[sink],
                           ', '.join(a for a, _ in need) + (' and the transport/upgrade match'
                                                            if alts else '')),
                        A.site(fi, v.node(si)), key='%s-admit-%s' % (name, sink),
                        detail=['missing: %s' % miss if miss else 'transport/upgrade alternative '
                                'not established'] + v.describe(60),
                        behaviour='a request that should be refused with 400 is let in')
                # JSONP index
                jbad = [i for i, e in enumerate(v.ev[:si]) if e.kind == 'handler' and
                        'ValueError' in (e.cls or '')]
                A.check(("'j' in query", False) in ga_before or
                        (("'j' in query", True) in ga_before and not jbad), rule + '.jsonp-index',
                        '%s: with a JSONP request only a numeric index is admitted' % name,
                        A.site(fi, v.node(si)), key='%s-admit-jsonp' % name, detail=v.describe(60),
                        behaviour='a non-numeric JSONP index is admitted')
                if sink in ('get', 'post'):
                    look = [i for i, e in enumerate(v.ev[:si]) if e.kind == 'bind' and
                            txt(e.target) == 'socket']
                    A.check(bool(look), rule + '.live-session',
                            '%s: the session is looked up with _get_socket(sid) (which refuses '
                            'closed sessions) before it is used' % name, A.site(fi, v.node(si)),
                            key='%s-lookup-%s' % (name, sink), detail=v.describe(60),
                            behaviour='a request naming a closed-but-not-reaped session is '
                                      'served')
            continue
        # ---- no sink: refusal / OPTIONS / 405
        if not rbinds and p.outcome == 'return':
            # early responses (origin / transport / version) return directly
            pass
        final = rbinds[-1][1] if rbinds else None
        eff = [x for i, x in v.effects(0)]
        early = [x for x in eff if x.startswith('self._bad_request(')]
        if final is not None and final == 'self._ok()':
            counts['options'] += 1
            if 'sinks' in parts:
                A.check(("method == 'OPTIONS'", True) in ga, rule + '.methods',
                        '%s: the bare 200 OK is the answer to OPTIONS only' % name, site,
                        key='%s-options' % name, detail=v.describe(40))
            continue
        if final is not None and final == 'self._method_not_found()':
            counts['405'] += 1
            if 'sinks' in parts:
                A.check(all((("method == '%s'" % m_), False) in ga
                            for m_ in ('GET', 'POST', 'OPTIONS')), rule + '.methods',
                        '%s: 405 is the answer to every method other than GET, POST, OPTIONS'
                        % name, site, key='%s-405' % name, detail=v.describe(40),
                        behaviour='a supported method is refused / an unsupported one accepted')
            continue
        if p.outcome == 'raise':
            if p.cls == 'KeyError' and 'sinks' in parts:
                ex = [i for i, e in enumerate(v.ev) if e.kind == 'exc' and e.depth == 0]
                node = v.ev[ex[-1]].node if ex else None
                src = [txt(e.expr) for e in v.ev if e.kind == 'call' and e.node is node
                       and e.depth == 0]
                looked = any(e.kind == 'bind' and txt(e.target) == 'socket' for e in v.ev[:ex[-1]]) \
                    if ex else False
                if any('_get_socket(' in x for x in src) or \
                        (any(x.startswith('self.transport(') for x in src) and not looked):
                    A.violated(rule + '.lookup-escape',
                               '%s: a session lookup that fails (unknown or closed session) is '
                               'answered 400, it does not raise out of handle_request' % name,
                               A.site(fi, node), key='%s-lookup-escape' % name,
                               detail=v.describe(50),
                               behaviour='a request naming a closed-but-not-reaped session makes '
                                         'handle_request raise KeyError: no response at all')
            continue
        counts['refused'] += 1
        if 'sinks' in parts and final is not None:
            # a refusal must be justified: the guard set that leads to it is the exact negation
            # of an admission test (no over-refusal)
            just = None
            neq = None
            if final == "self._bad_request('Invalid transport')" and \
                    ('sid in self.sockets', True) in ga:
                just = []
                neq = [['self.transport(sid)', 'transport'], ['transport', 'upgrade_header']]
            elif final == "self._bad_request('Invalid websocket upgrade')":
                just = [("transport == 'polling'", False)]
                neq = [['transport', 'upgrade_header', "'websocket'"]]
            elif final == "self._bad_request('Invalid JSONP index number')":
                just = [("'j' in query", True)]
            if just is not None:
                miss = [g for g in just if g not in ga]
                for items in (neq or []):
                    # the equalities must be refuted on the path, not merely untested
                    rel = [(a, pl) for a, pl in ga if a.count(' == ') == 1 and
                           all(x in items for x in a.split(' == '))]
                    if all_equal(ga, items) or not any(not pl for a, pl in rel):
                        miss.append(('=='.join(items), False))
                A.check(not miss, rule + '.refusal-justified',
                        '%s: %s is answered only when the corresponding admission test really '
                        'failed' % (name, final[len('self._bad_request('):-1]), site,
                        key='%s-over-refusal:%s' % (name, final), detail=['missing: %s' % miss] +
                        v.describe(50),
                        behaviour='well-addressed requests (e.g. every ordinary poll) are '
                                  'refused with 400')
        if 'inert' in parts:
            isref = (final is not None and final.startswith('self._bad_request(')) or \
                (final is None and early)
            A.check(isref, rule + '.refusal', '%s: a request that is not admitted is answered 400'
                    % name, site, key='%s-refusal-status' % name,
                    detail=['final r: %s' % final] + v.describe(40),
                    behaviour='a refused request gets another answer than 400')
            bad = [x for x in eff if any(k in x for k in (
                '_trigger_event(', '.close(', '.disconnect(', '.poll(', '.send(', '.receive(',
                '.put(', 'self.sockets.pop(', '_handle_connect('))]
            wr = [e for e in v.ev if e.kind in ('write', 'del') and 'self.sockets' in txt(e.target)]
            A.check(not bad and not wr, rule + '.refusal-inert',
                    '%s: a refused request has no effect on any session (no event, no close, no '
                    'queue access, no table change)' % name, site, key='%s-refusal-effects' % name,
                    detail=['effects: %s' % bad, 'writes: %s' % [txt(e.target) for e in wr]]
                    + v.describe(40),
                    behaviour='a refused request creates, closes or drains a session')
    if 'sinks' in parts:
        for k in ('connect', 'get', 'post', 'refused'):
            A.floor(rule, '%s handle_request %s paths' % (name, k), counts[k], 1)
        A.require(rule + '.methods', '%s: methods other than GET/POST/OPTIONS are answered 405'
                  % name, counts['405'], 1, site, key='%s-no-405' % name,
                  behaviour='an unsupported method is answered with something else than 405')
        A.require(rule + '.methods', '%s: OPTIONS is answered 200' % name, counts['options'], 1,
                  site, key='%s-no-options' % name)
    if 'origin' in parts:
        A.floor(rule, '%s origin-refused paths' % name, counts['origin-refused'], 1)
    A.sample({'rule': rule, 'flavour': name, 'paths': len(ps), 'by_outcome': counts})


# ---------------------------------------------------------------------------------------
# responses: constructors, one response per path, error routing, compression, JSONP
# ---------------------------------------------------------------------------------------
import re
STATUS_RE = re.compile(r'^(200|400|401|405) [A-Z][A-Z ]*$')
EXPECT_STATUS = {'_ok': '200 OK', '_bad_request': '400 BAD REQUEST',
                 '_method_not_found': '405 METHOD NOT FOUND', '_unauthorized': '401 UNAUTHORIZED'}


def flatten_list_concat(e):
    e = unawait(e)
    if isinstance(e, ast.BinOp) and isinstance(e.op, ast.Add):
        a, b = flatten_list_concat(e.left), flatten_list_concat(e.right)
        if a is None or b is None:
            return None
        return a + b
    if isinstance(e, ast.List):
        return list(e.elts)
    return None


def _bytes_kind(e):
    e = unawait(e)
    if isinstance(e, ast.Constant) and isinstance(e.value, bytes):
        return True
    return isinstance(e, ast.Call) and isinstance(e.func, ast.Attribute) and \
        e.func.attr == 'encode' and len(e.args) <= 1 and \
        (not e.args or match("'utf-8'", e.args[0]) is not None)


def constructor_rules(A, rule, fresh_rule=None):
    srv = A.model.cls('server.Server')
    for name, status in EXPECT_STATUS.items():
        fi = A.func('base_server.BaseServer.' + name)
        ps = [p for p in A.paths(A.enum(follow_handlers=False), fi, srv) if p.outcome != 'cut']
        n = 0
        for p in ps:
            if p.outcome != 'return':
                continue
            n += 1
            d = unawait(p.value)
            okd = isinstance(d, ast.Dict) and all(isinstance(k, ast.Constant) for k in d.keys)
            fields = {k.value: v for k, v in zip(d.keys, d.values)} if okd else {}
            if name == '_ok' and okd:
                ga_ = set(PV(p).guard_atoms())
                is_payload = 'payload.Payload(' in txt(fields.get('response'))
                A.check((('packets is None', False) in ga_) if is_payload else
                        (('packets is None', True) in ga_), rule + '.ok-body',
                        '_ok answers with the encoded payload whenever a packet list is given '
                        '(even an empty one) and with plain OK only when none is given',
                        A.site(fi), key='ctor-ok-guard', detail=sorted(map(str, ga_)),
                        behaviour='an empty poll result is answered with the text OK instead of '
                                  'an empty payload (or JSONP wrapper)')
            if name == '_ok' and okd and 'headers' in fields:
                ga_ = set(PV(p).guard_atoms())
                if ('headers is None', False) in ga_:
                    hh = unawait(fields['headers'])
                    kept = txt(hh) == 'headers' or (
                        isinstance(hh, ast.BinOp) and isinstance(hh.op, ast.Add) and
                        txt(hh.left) == 'headers')
                    A.check(kept, rule + '.caller-headers', "_ok keeps the headers its caller "
                            'built (the session cookie of the handshake) and only adds to them',
                            A.site(fi), key='ctor-ok-caller-headers', detail=txt(hh),
                            behaviour='the Set-Cookie header of the handshake response is '
                                      'dropped on some responses (e.g. JSONP)')
            A.check(okd and set(fields) == {'status', 'headers', 'response'}, rule + '.shape',
                    '%s returns a dict with status, headers, response' % name, A.site(fi),
                    key='ctor-shape-%s' % name, detail=txt(d))
            if not okd or set(fields) != {'status', 'headers', 'response'}:
                continue
            st = fields['status']
            A.check(isinstance(st, ast.Constant) and isinstance(st.value, str) and
                    STATUS_RE.match(st.value) and st.value == status, rule + '.status',
                    '%s answers "%s"' % (name, status), A.site(fi), key='ctor-status-%s' % name,
                    detail=txt(st), behaviour='a response with a status outside 200/400/401/405 '
                                              'or a malformed status line')
            hs = flatten_list_concat(fields['headers'])
            base_ok = hs is not None
            if hs is None and name == '_ok':
                # headers parameter (a list made by the caller) extended by a list display
                hh = unawait(fields['headers'])
                if isinstance(hh, ast.BinOp) and isinstance(hh.op, ast.Add) and \
                        txt(hh.left) in ('headers', '[]') and isinstance(hh.right, ast.List):
                    hs = list(hh.right.elts)
                    base_ok = True
            A.check(base_ok, (fresh_rule or rule) + '.fresh-headers',
                    '%s builds a fresh header list for every response (never a shared object)'
                    % name, A.site(fi), key='ctor-headers-shared-%s' % name,
                    detail=txt(fields['headers']),
                    behaviour='the in-place "Content-Encoding" append of handle_request leaks '
                              'into later responses: an uncompressed body is declared compressed')
            if hs is not None:
                okh = all(isinstance(h, ast.Tuple) and len(h.elts) == 2 and
                          all(isinstance(x, ast.Constant) and isinstance(x.value, str)
                              for x in h.elts) for h in hs)
                A.check(okh and any(h.elts[0].value == 'Content-Type' for h in hs),
                        rule + '.headers', '%s: headers are (str, str) pairs including '
                        'Content-Type' % name, A.site(fi), key='ctor-headers-%s' % name,
                        detail=[txt(h) for h in hs])
            A.check(_bytes_kind(fields['response']), rule + '.body',
                    '%s: the body is bytes' % name, A.site(fi), key='ctor-body-%s' % name,
                    detail=txt(fields['response']),
                    behaviour='the gateway receives a str body')
        A.floor(rule, '%s returning paths' % name, n, 1)
    # no other status literal in the server modules
    for mod in ('server', 'async_server', 'base_server'):
        for n_ in ast.walk(A.model.module(mod).tree):
            if isinstance(n_, ast.Constant) and isinstance(n_.value, str) and \
                    re.match(r'^\d\d\d [A-Za-z]', n_.value):
                A.check(n_.value in EXPECT_STATUS.values(), rule + '.status',
                        'status literal %r is one of the four allowed' % n_.value,
                        'src/engineio/%s.py:%d' % (mod, n_.lineno), key='status-literal',
                        detail=n_.value)


def response_rules(A, fl, rule, parts=('one-response', 'errors', 'reap')):
    fi, srv, ps = request_paths(A, fl)
    name = fl['name']
    site = A.site(fi)
    n_ret = n_err = n_reap = 0
    for p in ps:
        v = PV(p, depth=0)
        ga = set(v.guard_atoms())
        if p.outcome == 'return' and 'one-response' in parts:
            n_ret += 1
            if fl['name'] == 'threaded':
                resp = v.calls('start_response(___)')
                passthrough = ('isinstance(r, dict)', False) in ga
                if passthrough:
                    A.check(not resp and txt(p.value) == 'r', rule + '.one-response',
                            'threaded: a non-dict result (the WebSocket handler\'s) is returned '
                            'as it is, without a second response', site,
                            key='threaded-passthrough', detail=v.describe(40))
                else:
                    ok = len(resp) == 1
                    if ok:
                        c = unawait(v.ev[resp[0][0]].expr)
                        ok = len(c.args) == 2 and txt(c.args[0]) == "r['status']" and \
                            txt(c.args[1]).startswith("r['headers']")
                        ok = ok and txt(p.value) == "[r['response']]"
                    A.check(ok, rule + '.one-response', 'threaded: every request path calls '
                            'start_response exactly once with the status and header list and '
                            'returns [body]', site, key='threaded-one-response',
                            detail=v.describe(40),
                            behaviour='no response, two responses or a malformed WSGI return '
                                      'value')
            else:
                resp = v.calls('self._make_response(___)')
                passthrough = ('isinstance(r, dict)', False) in ga
                if passthrough:
                    A.check(not resp and txt(p.value) == 'r', rule + '.one-response',
                            'asyncio: a non-dict result is returned as it is', site,
                            key='asyncio-passthrough', detail=v.describe(40))
                else:
                    ok = len(resp) == 1 and txt(p.value).startswith('self._make_response(')
                    if ok:
                        c = unawait(v.ev[resp[0][0]].expr)
                        ok = len(c.args) == 2 and txt(c.args[1]) == 'environ' and \
                            (txt(c.args[0]) == 'r' or txt(c.args[0]).startswith('self._bad_request('))
                    A.check(ok, rule + '.one-response', 'asyncio: every request path produces '
                            'exactly one response through _make_response(r, environ)', site,
                            key='asyncio-one-response', detail=v.describe(40),
                            behaviour='no response or two responses for one request')
        # protocol errors from the socket handlers
        if 'errors' in parts:
            # a protocol error raised by the session (any EngineIOError subclass) must reach the
            # protocol-error branch: no other clause may take it first
            for i, e in enumerate(v.ev):
                if e.kind == 'exc' and e.depth == 0 and e.cls and \
                        exc_is_subclass(e.cls, 'EngineIOError', A.resolver.exc_parents) and \
                        i > 0 and v.ev[i - 1].kind == 'call' and \
                        txt(v.ev[i - 1].expr).startswith('socket.handle_'):
                    nh = next((x for x in v.ev[i + 1:] if x.kind in ('handler', 'call', 'bind')),
                              None)
                    A.check(nh is not None and nh.kind == 'handler' and
                            nh.cls == 'EngineIOError', rule + '.protocol-error',
                            '%s: a protocol error raised by the session handlers (%s) is taken '
                            'by the protocol-error branch' % (name, e.cls),
                            A.site(fi, e.node), key='%s-protocol-error-misrouted' % name,
                            detail=v.describe(70),
                            behaviour='a refused packet / oversize body / dead poll is answered '
                                      'as if nothing happened: the session survives a protocol '
                                      'error')
            hidx = [i for i, e in enumerate(v.ev) if e.kind == 'handler' and e.cls == 'EngineIOError']
            for hi in hidx:
                if any(e.kind == 'exc' for e in v.ev[hi:]):
                    continue    # a further (summary-based) exception inside the handler
                n_err += 1
                nxt = len(v.ev)
                cl = [(i, c) for i, c in v.calls('socket.close(___)') if i > hi]
                okc = True
                firstg = next((atom(e.expr, e.pol) for e in v.ev[hi:] if e.kind == 'guard' and
                               atom(e.expr, e.pol)[0] == 'sid in self.sockets'), None)
                if firstg == ('sid in self.sockets', True):
                    okc = len(cl) >= 1 and match(
                        'socket.close(wait=False, reason=self.reason.SERVER_DISCONNECT, '
                        '_strict=True)', v.ev[cl[0][0]].expr) is not None
                    pops = [i for i, _ in v.calls('self.sockets.pop(sid, None)') if i > hi] + \
                        [i for i, e in enumerate(v.ev) if e.kind == 'del' and i > hi and
                         txt(e.target) == 'self.sockets[sid]']
                    okc = okc and bool(pops)
                rb = [x for i, x in [(i, txt(e.expr)) for i, e in enumerate(v.ev)
                                     if e.kind == 'bind' and txt(e.target) == 'r'] if i > hi]
                A.check(okc and rb and rb[0] == 'self._bad_request()', rule + '.protocol-error',
                        '%s: a protocol error (oversize / unknown packet / empty poll) fails the '
                        'request with 400 and ends the session without waiting' % name,
                        A.site(fi, v.node(hi)), key='%s-protocol-error' % name,
                        detail=v.describe(70),
                        behaviour='the worker blocks in close(wait=True)/queue.join(), or the '
                                  'session survives a protocol error')
                dis = [i for i, _ in v.calls('self.disconnect(___)') if i > hi]
                A.check(not dis, rule + '.no-block', '%s: the request error branch does not call '
                        'the waiting disconnect()' % name, A.site(fi, v.node(hi)),
                        key='%s-error-branch-disconnect' % name, detail=v.describe(70),
                        behaviour='the request never completes: disconnect() waits in '
                                  'queue.join() for a poll that cannot come')
        if 'reap' in parts:
            # converse: a session is taken out of the table by a request only if it is closed
            # (or was just closed by the protocol-error branch)
            for i, e in enumerate(v.ev):
                rm = (e.kind == 'del' and txt(e.target) == 'self.sockets[sid]') or \
                    (e.kind == 'call' and txt(e.expr).startswith('self.sockets.pop(sid'))
                if not rm:
                    continue
                gb = set(atom(x.expr, x.pol) for x in v.ev[:i] if x.kind == 'guard')
                closed_before = ('self.sockets[sid].closed', True) in gb or \
                    ('socket.closed', True) in gb
                aborted = any(x.kind == 'call' and txt(x.expr).startswith('socket.close(')
                              for x in v.ev[:i])
                A.check(closed_before or aborted, rule + '.reap-only-closed',
                        '%s: a request removes a session from the table only if that session is '
                        'closed' % name, A.site(fi, e.node), key='%s-reap-live-session' % name,
                        detail=v.describe(70),
                        behaviour='a live polling session is orphaned (e.g. after a failed '
                                  'upgrade attempt): its queued messages are never delivered')
            g = ('self.sockets[sid].closed', True) in ga and ('sid in self.sockets', True) in ga
            if g and any(c for c in v.calls('socket.handle_get_request(___)')):
                n_reap += 1
                dels = [e for e in v.ev if e.kind == 'del' and txt(e.target) == 'self.sockets[sid]']
                A.check(bool(dels), rule + '.reap-after-get', '%s: a session found closed after '
                        'its GET is removed from the table' % name, site,
                        key='%s-reap-after-get' % name, detail=v.describe(70),
                        behaviour='closed sessions stay in the table')
    if 'one-response' in parts:
        A.floor(rule, '%s returning handle_request paths' % name, n_ret, 20)
    if 'errors' in parts:
        A.floor(rule, '%s protocol-error branches' % name, n_err, 2)
    if 'reap' in parts:
        A.floor(rule, '%s reap-after-get paths' % name, n_reap, 1)


def _slice_func(A, fi, stmts, name, params):
    """FuncInfo for a synthetic function whose body is a slice of fi (same module / class)."""
    from sa.model import FuncInfo
    args = ast.arguments(posonlyargs=[], args=[ast.arg(p) for p in params], vararg=None,
                         kwonlyargs=[], kw_defaults=[], kwarg=None, defaults=[])
    node = ast.FunctionDef(name=name, args=args, body=list(stmts), decorator_list=[],
                           returns=None, type_comment=None, type_params=[])
    node.lineno = stmts[0].lineno
    ast.fix_missing_locations(node)
    node.lineno = stmts[0].lineno
    f = FuncInfo(fi.name + '$' + name, node, fi.module, cls=fi.cls)
    f.qualname = fi.qualname + '$' + name
    return f


def compression_rules(A, fl, rule):
    fi = A.func(fl['server'] + '.handle_request')
    srv = A.model.cls(fl['server'])
    name = fl['name']
    blocks = [st for st in fi.node.body if isinstance(st, ast.If) and
              'self.http_compression' in ast.unparse(st.test)]
    if not blocks:
        # extracted into a helper of the server class (or its base)
        for k in A.model.mro(srv):
            for m_ in k.methods.values():
                if m_.qualname in A.anchors() and m_.name != 'handle_request':
                    continue
                for st in m_.node.body:
                    if isinstance(st, ast.If) and 'self.http_compression' in ast.unparse(st.test):
                        blocks.append(st)
                        fi = m_
    if len(blocks) != 1:
        raise AnalysisError('%s: compression block of %s not found' % (rule, fi.qualname))
    sl = _slice_func(A, fi, [blocks[0], ast.Return(ast.Name('r', ast.Load()))], 'compress',
                     ['self', 'r', 'environ'])
    ps = [p for p in A.paths(A.enum(loop_bound=2, follow_handlers=False), sl, srv)
          if p.outcome != 'cut']
    sym = {"len(r['response'])": ('L', 0), 'self.compression_threshold': ('T', 0)}
    enc_t = "[e.split(';')[0].strip() for e in environ.get('HTTP_ACCEPT_ENCODING', '').split(',')]"
    n_c = 0
    for p in ps:
        v = PV(p)
        wr = [(i, val) for i, val in v.writes("r['response']")]
        wh = [(i, val) for i, val in v.writes("r['headers']")]
        A.check(len(wr) == len(wh) and len(wr) <= 1, rule + '.declared<=>compressed',
                '%s: the body is compressed at most once and exactly when Content-Encoding is '
                'declared' % name, A.site(fi, blocks[0]), key='%s-compress-pairing' % name,
                detail=v.describe(40),
                behaviour='a compressed body without Content-Encoding (or the reverse), or a '
                          'body compressed twice')
        if len(wr) != 1 or len(wh) != 1:
            continue
        n_c += 1
        ga = set(v.guard_atoms())
        # the offered encoding: the n-th comma-separated item of Accept-Encoding without its
        # parameters - taken from a list built up front or computed item by item
        H_ = "environ.get('HTTP_ACCEPT_ENCODING', '')"

        def offered(e_):
            for pat in ("_elem(%s, _k)" % enc_t,
                        "_elem(%s.split(','), _k).split(';')[0].strip()" % H_):
                c_ = match(pat, e_)
                if c_ is not None:
                    return txt(c_['k'])
            return None
        m1 = match("getattr(self, '_' + _e)(r['response'])",
                   ast.parse(wr[0][1], mode='eval').body)
        m2 = match("r['headers'] + [('Content-Encoding', _e2)]",
                   ast.parse(wh[0][1], mode='eval').body)
        k1 = offered(m1['e']) if m1 else None
        k2 = offered(m2['e2']) if m2 else None
        etxt = txt(m1['e']) if m1 else None
        A.check(k1 is not None and k2 is not None and k1 == k2 and txt(m1['e']) == txt(m2['e2']),
                rule + '.declared<=>compressed', '%s: the declared encoding names the function '
                'that compressed the body, and it is one the request offered' % name,
                A.site(fi, v.node(wr[0][0])), key='%s-compress-label' % name,
                detail=[wr[0][1], wh[0][1]],
                behaviour='the body is gzip but declared deflate (or an encoding the client did '
                          'not offer is used)')
        need = [('self.http_compression', True),
                ('%s in self.compression_methods' % (etxt or '?'), True)]
        forms = [int_ordering(v.ev[i].expr, v.ev[i].pol, sym) for i in v.guards()]
        forms = [f for f in forms if f is not None and 'L' in f[0]]
        A.check(all(g in ga for g in need) and forms == [({'L': 1, 'T': -1}, 0)],
                rule + '.conditions', '%s: compression happens only if enabled, the body has '
                'reached the threshold (len >= threshold) and the offered encoding is supported'
                % name, A.site(fi, blocks[0]), key='%s-compress-conditions' % name,
                detail=['threshold forms: %s' % forms] + v.describe(40),
                behaviour='bodies below the threshold are compressed / compression ignores '
                          'http_compression=False')
        later = [i for i in v.kinds('iter') if i > wr[0][0] and v.ev[i].pol]
        A.check(not later, rule + '.declared<=>compressed', '%s: the selection loop stops after '
                'the first supported encoding' % name, A.site(fi, blocks[0]),
                key='%s-compress-break' % name, detail=v.describe(40),
                behaviour='double compression')
    A.floor(rule, '%s compressing paths' % name, n_c, 2)


def codec_registry_rules(A, rule):
    bs = A.model.cls('base_server.BaseServer')
    v, _ = A.model.class_attr(bs, 'compression_methods')
    methods = ast.literal_eval(v) if v is not None else None
    A.check(methods == ['gzip', 'deflate'], rule + '.registry',
            'the supported content codings are gzip and deflate', 'src/engineio/base_server.py',
            key='compression-methods', detail=repr(methods))
    for m_ in methods or []:
        A.check(A.model.find_method(bs, '_' + m_) is not None, rule + '.registry',
                'a compressor _%s exists for the advertised coding' % m_,
                'src/engineio/base_server.py', key='compressor-missing-%s' % m_)
    gz = A.func('base_server.BaseServer._gzip')
    ps = [p for p in A.paths(A.enum(follow_handlers=False), gz, bs) if p.outcome == 'return']
    for p in ps:
        pv = PV(p)
        ctor = pv.calls('gzip.GzipFile(___)')
        ok = len(ctor) == 1
        if ok:
            c = unawait(pv.ev[ctor[0][0]].expr)
            kw = {k.arg: k.value for k in c.keywords}
            ok = txt(kw.get('fileobj')) == 'io.BytesIO()' and \
                txt(kw.get('mode')) in ("'w'", "'wb'")
        wr = pv.calls('_g.write(response)')
        ok = ok and len(wr) == 1 and txt(p.value) == 'io.BytesIO().getvalue()'
        A.check(ok, rule + '.gzip', '_gzip writes the whole body through GzipFile(mode=w) into a '
                'buffer and returns the buffer after the with-block closed the stream',
                A.site(gz), key='gzip-shape', detail=pv.describe(),
                behaviour='a truncated or non-gzip body is declared gzip')
    A.floor(rule, '_gzip paths', len(ps), 1)
    df = A.func('base_server.BaseServer._deflate')
    for p in [p for p in A.paths(A.enum(follow_handlers=False), df, bs) if p.outcome == 'return']:
        c = unawait(p.value)
        ok = isinstance(c, ast.Call) and txt(c.func) == 'zlib.compress' and c.args and \
            txt(c.args[0]) == 'response' and not any(k.arg == 'wbits' for k in c.keywords)
        A.check(ok, rule + '.deflate', "_deflate is zlib.compress (zlib container - HTTP's "
                '"deflate")', A.site(df), key='deflate-shape', detail=txt(c),
                behaviour='raw deflate without zlib header is declared "deflate"')


def jsonp_rule(A, rule):
    from sa.terms import flatten_concat, merge_consts
    enc = A.func('payload.Payload.encode')
    en = A.enum(assume=assume_from({'jsonp_index': Kind('int', truthy=True)}), loop_bound=1)
    ps = [p for p in A.paths(en, enc) if p.outcome == 'return']
    n = 0
    for p in ps:
        parts = merge_consts(flatten_concat(p.value))
        n += 1
        texts = [txt(x) for x in parts]
        ok = len(parts) == 5 and texts[0] == "'___eio['" and texts[1] == 'str(jsonp_index)' and \
            texts[2] == "']('" and texts[4] == "');'"
        esc = None
        if ok:
            c = unawait(parts[3])
            esc = c
            ok = isinstance(c, ast.Call) and txt(c.func) in ('json.dumps', 'self.json.dumps') \
                and len(c.args) == 1
            if ok:
                kw = {k.arg: k.value for k in c.keywords}
                ok = ('ensure_ascii' not in kw or match('True', kw['ensure_ascii']) is not None) \
                    and not (set(kw) - {'ensure_ascii'})
        A.check(ok, rule + '.jsonp', 'a JSONP body is ___eio[<index>](<payload as a complete '
                'JavaScript string literal>); - the payload text is escaped by json.dumps with '
                'ensure_ascii (quotes, backslashes, line terminators, U+2028/2029)',
                A.site(enc), key='jsonp-escaper', detail=texts,
                behaviour='payloads with quotes/backslashes/line terminators/U+2028 produce a '
                          'different or invalid script')
        if ok and esc is not None:
            inner = merge_consts(flatten_concat(esc.args[0]))
            A.check(all('.encode(b64=True)' in txt(x) or txt(x) == repr('\x1e') for x in inner),
                    rule + '.jsonp', 'the escaped text is exactly the encoded payload',
                    A.site(enc), key='jsonp-inner', detail=[txt(x) for x in inner])
    A.floor(rule, 'JSONP encode paths', n, 1)
    # the wrapper is applied for every index that was asked for - 0 included - and only then
    for label, val, wrapped in (('index 0', Const(0), True), ('no index', Const(None), False)):
        A.counters['cases'] += 1
        en = A.enum(assume=assume_from({'jsonp_index': val}), loop_bound=1)
        ps = [p for p in A.paths(en, enc) if p.outcome == 'return']
        A.floor(rule, 'Payload.encode paths for %s' % label, len(ps), 1)
        for p in ps:
            parts = merge_consts(flatten_concat(p.value))
            is_wrapped = bool(parts) and txt(parts[0]) == "'___eio['"
            A.check(is_wrapped == wrapped, rule + '.jsonp',
                    'Payload.encode wraps the payload for JSONP exactly when an index is given '
                    '(%s -> %s)' % (label, 'wrapped' if wrapped else 'plain'), A.site(enc),
                    key='jsonp-wrap-%s' % label.replace(' ', '-'),
                    detail=[txt(x) for x in parts],
                    behaviour='a JSONP client whose callback index is 0 receives a bare payload '
                              'it cannot evaluate: everything dequeued for that poll is lost')


# ---------------------------------------------------------------------------------------
# CORS: allowed-origin computation and response headers
# ---------------------------------------------------------------------------------------
def cors_rules(A, rule):
    bs = A.model.cls('base_server.BaseServer')
    fi = A.func('base_server.BaseServer._cors_allowed_origins')
    cfgs = [('None (default: same origin)', Const(None), 'default'),
            ("'*'", Const('*'), 'none'),
            ('a single origin string', Kind('str', truthy=True, empty=False, neq=('*',)),
             'wrapped'),
            ('a list of origins', Kind('list'), 'self'),
            ('a predicate', Kind('other', truthy=True), 'predicate')]
    for label, val, want in cfgs:
        A.counters['cases'] += 1
        asm = {'self.cors_allowed_origins': val}
        if isinstance(val, Kind) and val.k == 'other':
            asm['callable(self.cors_allowed_origins)'] = Const(True)
        ps = [p for p in A.paths(A.enum(assume=assume_from(asm), follow_handlers=False), fi, bs)
              if p.outcome == 'return']
        A.floor(rule, '_cors_allowed_origins paths for %s' % label, len(ps), 1)
        for p in ps:
            v = PV(p)
            rv = txt(p.value)
            what = 'cors_allowed_origins = %s' % label
            if want == 'none':
                ok = rv == 'None'
            elif want == 'wrapped':
                ok = rv == '[self.cors_allowed_origins]'
            elif want == 'self':
                ok = rv == 'self.cors_allowed_origins'
            elif want == 'predicate':
                ok = rv in ("[environ.get('HTTP_ORIGIN')] if self.cors_allowed_origins("
                            "environ.get('HTTP_ORIGIN')) else []",
                            "[environ.get('HTTP_ORIGIN')]", '[]')
            else:
                exp1 = "'{scheme}://{host}'.format(scheme=environ['wsgi.url_scheme'], " \
                       "host=environ['HTTP_HOST'])"
                exp2 = "'{scheme}://{host}'.format(scheme=environ.get('HTTP_X_FORWARDED_PROTO', " \
                       "environ['wsgi.url_scheme']).split(',')[0].strip(), host=environ.get(" \
                       "'HTTP_X_FORWARDED_HOST', environ['HTTP_HOST']).split(',')[0].strip())"
                # the returned list as the engine reconstructs it (display + tracked appends)
                pv = unawait(p.value)
                apps = [txt(x) for x in pv.elts] if isinstance(pv, ast.List) else None
                ok = apps in ([], [exp1], [exp1, exp2])
                # ... under exactly these conditions on the request
                ga_ = set(v.guard_atoms())
                both = ("'wsgi.url_scheme' in environ", True) in ga_ and \
                    ("'HTTP_HOST' in environ", True) in ga_
                fwd = ("'HTTP_X_FORWARDED_PROTO' in environ", True) in ga_ or \
                    ("'HTTP_X_FORWARDED_HOST' in environ", True) in ga_
                nofwd = ("'HTTP_X_FORWARDED_PROTO' in environ", False) in ga_ and \
                    ("'HTTP_X_FORWARDED_HOST' in environ", False) in ga_
                if ok and apps == [exp1, exp2]:
                    ok = both and fwd
                elif ok and apps == [exp1]:
                    ok = both and nofwd
                elif ok:
                    ok = not both
                if not ok:
                    rv = rv + ' with ' + repr(apps)
            A.check(ok, rule + '.allowed-set', '%s: the allowed set is %s' % (what, {
                'none': 'None (everything)', 'wrapped': 'a one-element list (exact match, never a '
                'substring test)', 'self': 'the configured list',
                'predicate': 'the request origin iff the predicate accepts it',
                'default': "exactly scheme://host of the request (and of X-Forwarded-*)"}[want]),
                A.site(fi), key='cors-allowed-%s' % want, detail=['returns ' + rv] + v.describe(30),
                behaviour='"origin in allowed" becomes a substring test / foreign origins are '
                          'allowed')
    # _cors_headers
    ch = A.func('base_server.BaseServer._cors_headers')
    ps = [p for p in A.paths(A.enum(follow_handlers=False), ch, bs) if p.outcome == 'return']
    A.floor(rule, '_cors_headers paths', len(ps), 8)
    AO = 'self._cors_allowed_origins(environ)'
    for p in ps:
        v = PV(p)
        ga = set(v.guard_atoms())
        if ('self.cors_allowed_origins == []', True) in ga:
            A.check(txt(p.value) == '[]' and not v.effects(0), rule + '.disabled',
                    'with an empty allow-list no CORS header is emitted', A.site(ch),
                    key='cors-disabled', detail=v.describe(),
                    behaviour='CORS headers are emitted although CORS handling is disabled')
            continue
        hs = flatten_list_concat(p.value)
        if hs is None:
            A.undecided(rule + '.headers', 'header list recognised', A.site(ch), txt(p.value))
            continue
        names = {}
        for h in hs:
            if isinstance(h, ast.Tuple) and len(h.elts) == 2 and isinstance(h.elts[0], ast.Constant):
                names[h.elts[0].value] = txt(h.elts[1])
        acao = names.get('Access-Control-Allow-Origin')
        allowed = ("'HTTP_ORIGIN' in environ", True) in ga and (
            (AO + ' is None', True) in ga or ("environ['HTTP_ORIGIN'] in " + AO, True) in ga)
        if acao is not None:
            A.check(allowed and acao == "environ['HTTP_ORIGIN']", rule + '.never-over-grant',
                    "Access-Control-Allow-Origin is emitted only with the request's own Origin "
                    'and only if that origin is allowed', A.site(ch), key='cors-acao',
                    detail=['value ' + acao] + v.describe(),
                    behaviour='a disallowed origin (or *) is granted access')
        else:
            A.check(not allowed, rule + '.grant', 'an allowed origin gets its '
                    'Access-Control-Allow-Origin header', A.site(ch), key='cors-acao-missing',
                    detail=v.describe())
        cred = 'Access-Control-Allow-Credentials' in names
        A.check(cred == (('self.cors_credentials', True) in ga) and
                (not cred or names['Access-Control-Allow-Credentials'] == "'true'"),
                rule + '.credentials', 'Allow-Credentials is emitted iff cors_credentials is '
                'enabled', A.site(ch), key='cors-credentials', detail=v.describe(),
                behaviour='credentials are allowed although disabled')
        acam = 'Access-Control-Allow-Methods' in names
        A.check(acam == (("environ['REQUEST_METHOD'] == 'OPTIONS'", True) in ga) and
                (not acam or names['Access-Control-Allow-Methods'] == "'OPTIONS, GET, POST'"),
                rule + '.preflight', 'Allow-Methods (OPTIONS, GET, POST) answers exactly the '
                'OPTIONS requests', A.site(ch), key='cors-acam', detail=v.describe(),
                behaviour='a preflight is answered without (or a plain request with) the '
                          'allowed methods')
        acah = 'Access-Control-Allow-Headers' in names
        A.check(acah == (("'HTTP_ACCESS_CONTROL_REQUEST_HEADERS' in environ", True) in ga) and
                (not acah or names['Access-Control-Allow-Headers'] ==
                 "environ['HTTP_ACCESS_CONTROL_REQUEST_HEADERS']"),
                rule + '.preflight', 'Allow-Headers echoes Access-Control-Request-Headers '
                'exactly when the request carries it', A.site(ch), key='cors-acah',
                detail=v.describe(),
                behaviour='a preflight that names request headers is answered without them: the '
                          'browser blocks the actual request')
        extra = set(names) - {'Access-Control-Allow-Origin', 'Access-Control-Allow-Credentials',
                              'Access-Control-Allow-Methods', 'Access-Control-Allow-Headers'}
        A.check(not extra, rule + '.headers', 'only the four CORS headers are produced',
                A.site(ch), key='cors-extra', detail=sorted(extra))


# ---------------------------------------------------------------------------------------
# application-facing API and the session table
# ---------------------------------------------------------------------------------------
def api_rules(A, fl, rule):
    P = pconsts(A)
    srv = A.model.cls(fl['server'])
    name = fl['name']
    S = 'self._get_socket(sid)'
    # send()
    fi = A.func(fl['server'] + '.send')
    for p in [p for p in A.paths(A.enum(follow_handlers=False), fi, srv) if p.outcome == 'return']:
        v = PV(p)
        c = v.calls('self.send_packet(sid, _p)')
        ok = len(c) == 1
        if ok:
            pc = packet_ctor(A, fi, c[0][1]['p'])
            ok = pc is not None and pc[0] == P['MESSAGE'] and pc[1] is not None and \
                txt(pc[1]) == 'data' and pc[2] is None
        A.check(ok, rule + '.send', '%s send(sid, data) queues one MESSAGE packet with the data '
                'for that sid' % name, A.site(fi), key='%s-api-send' % name, detail=v.describe())
    # send_packet()
    fi = A.func(fl['server'] + '.send_packet')
    ps = [p for p in A.paths(A.enum(), fi, srv) if p.outcome != 'cut']
    n_ok = n_dead = 0
    for p in ps:
        v = PV(p)
        sends = v.calls(S + '.send(pkt)')
        allsends = v.calls('_x.send(___)')
        if any(e.kind == 'handler' for e in v.ev):
            n_dead += 1
            A.check(not allsends and p.outcome == 'return' and
                    not [x for i, x in v.effects(0) if 'logger' not in x and '_get_socket' not in x],
                    rule + '.dead-id-noop', '%s send to an unknown / disconnected sid is a silent '
                    'no-op' % name, A.site(fi), key='%s-send-dead' % name, detail=v.describe(),
                    behaviour='send() to a dead id raises or reaches another session')
        elif not any(e.kind == 'exc' for e in v.ev):
            n_ok += 1
            A.check(len(sends) == 1 and len(allsends) == 1, rule + '.own-session',
                    '%s send_packet(sid, pkt) enqueues pkt on the session looked up from its own '
                    'sid, once' % name, A.site(fi), key='%s-send-own' % name, detail=v.describe(),
                    behaviour='a message is delivered to a session other than the addressed one')
    A.floor(rule, '%s send_packet delivering paths' % name, n_ok, 1)
    A.require(rule + '.dead-id-noop', '%s send to an unknown / disconnected sid is a silent no-op '
              '(the failed lookup is handled)' % name, n_dead, 1, A.site(fi),
              key='%s-send-dead-unhandled' % name,
              behaviour='send() to a dead session id raises KeyError')
    # session accessors
    fi = A.func(fl['server'] + '.get_session')
    for p in [p for p in A.paths(A.enum(), fi, srv) if p.outcome == 'return']:
        A.check(txt(p.value) == S + '.session', rule + '.session', '%s get_session returns the '
                'addressed session\'s own data' % name, A.site(fi), key='%s-get-session' % name,
                detail=txt(p.value), behaviour='session data of another connection is returned')
    A.check('KeyError' in A.resolver.raises_of(fi, srv), rule + '.dead-id-raises',
            '%s get_session raises KeyError for a dead id' % name, A.site(fi),
            key='%s-get-session-raise' % name)
    fi = A.func(fl['server'] + '.save_session')
    for p in [p for p in A.paths(A.enum(), fi, srv) if p.outcome == 'return']:
        v = PV(p)
        w = v.writes()
        A.check(len(w) == 1 and txt(v.ev[w[0][0]].target) == S + '.session' and w[0][1] == 'session',
                rule + '.session', "%s save_session stores into the addressed session only"
                % name, A.site(fi), key='%s-save-session' % name, detail=v.describe())
    A.check('KeyError' in A.resolver.raises_of(fi, srv), rule + '.dead-id-raises',
            '%s save_session raises KeyError for a dead id' % name, A.site(fi),
            key='%s-save-session-raise' % name)
    fi = A.func('base_server.BaseServer.transport')
    for p in [p for p in A.paths(A.enum(), fi, srv) if p.outcome == 'return']:
        gat = set(PV(p).guard_atoms())
        okt = txt(p.value) == "'websocket' if %s.upgraded else 'polling'" % S or \
            (txt(p.value) == "'websocket'" and (S + '.upgraded', True) in gat) or \
            (txt(p.value) == "'polling'" and (S + '.upgraded', False) in gat)
        if not okt and p.value is not None:
            # any other spelling is judged by folding it under both values of the flag
            def _fold(b_, S=S, val=p.value):
                r_ = AbsEval(lambda e_: Const(b_) if txt(e_) == S + '.upgraded' else None).eval(val)
                return r_.v if isinstance(r_, Const) else None
            okt = _fold(True) == 'websocket' and _fold(False) == 'polling'
        A.check(okt, rule + '.transport', '%s transport(sid) reports websocket iff the session '
                'is upgraded' % name, A.site(fi), key='%s-transport' % name, detail=txt(p.value))
    A.check('KeyError' in A.resolver.raises_of(fi, srv), rule + '.dead-id-raises',
            '%s transport raises KeyError for a dead id' % name, A.site(fi),
            key='%s-transport-raise' % name)
    # session() context manager
    fi = A.func(fl['server'] + '.session')
    for cm in fi.nested_classes.values():
        for mn, m_ in cm.methods.items():
            if mn in ('__enter__', '__aenter__'):
                ok = any(match('self.server.get_session(sid)', unawait(n)) is not None
                         for n in ast.walk(m_.node) if isinstance(n, (ast.Call, ast.Await)))
                A.check(ok, rule + '.session', '%s session() enters through get_session(sid)'
                        % name, A.site(fi, m_.node), key='%s-session-enter' % name)
            if mn in ('__exit__', '__aexit__'):
                ok = any(match('self.server.save_session(sid, self.session)', unawait(n))
                         is not None for n in ast.walk(m_.node) if isinstance(n, (ast.Call, ast.Await)))
                A.check(ok, rule + '.session', '%s session() saves through save_session(sid, ..)'
                        % name, A.site(fi, m_.node), key='%s-session-exit' % name)


def get_socket_rule(A, rule):
    fi = A.func('base_server.BaseServer._get_socket')
    srv = A.model.cls('server.Server')
    ps = [p for p in A.paths(A.enum(), fi, srv) if p.outcome != 'cut']
    n = {'missing': 0, 'closed': 0, 'live': 0}
    for p in ps:
        v = PV(p)
        ga = set(v.guard_atoms())
        if any(e.kind == 'handler' for e in v.ev):
            n['missing'] += 1
            A.check(p.outcome == 'raise' and p.cls == 'KeyError', rule + '.lookup',
                    'an unknown sid raises KeyError', A.site(fi), key='get-socket-missing',
                    detail=v.describe())
        elif ('self.sockets[sid].closed', True) in ga:
            n['closed'] += 1
            dels = [e for e in v.ev if e.kind == 'del' and txt(e.target) == 'self.sockets[sid]']
            A.check(p.outcome == 'raise' and p.cls == 'KeyError' and dels, rule + '.lookup',
                    'a closed session is removed from the table and reported as KeyError',
                    A.site(fi), key='get-socket-closed', detail=v.describe(),
                    behaviour='a disconnected session stays addressable')
        elif p.outcome == 'return':
            n['live'] += 1
            A.check(txt(p.value) == 'self.sockets[sid]' and
                    ('self.sockets[sid].closed', False) in ga, rule + '.lookup',
                    'only a session that is not closed is returned', A.site(fi),
                    key='get-socket-live', detail=v.describe())
    for k, c in n.items():
        A.floor(rule, '_get_socket %s paths' % k, c, 1)


def isolation_rules(A, rule):
    bs = A.func('base_socket.BaseSocket.__init__')
    ps = [p for p in A.paths(A.enum(), bs, bs.cls) if p.outcome == 'return']
    for p in ps:
        v = PV(p)
        w = {txt(v.ev[i].target): val for i, val in v.writes()}
        A.check(w.get('self.session') == '{}', rule + '.isolation',
                'every session starts with its own fresh user-data dict', A.site(bs),
                key='session-fresh', detail=w.get('self.session'),
                behaviour='user data of one session is visible through another')
        A.check(w.get('self.queue') in ('self.server.create_queue()', 'server.create_queue()'),
                rule + '.isolation',
                'every session gets its own queue', A.site(bs), key='queue-fresh',
                detail=w.get('self.queue'),
                behaviour='messages for one session are delivered to another')
        for flag in ('connected', 'upgrading', 'upgraded', 'closing', 'closed'):
            A.check(w.get('self.' + flag) == 'False', rule + '.isolation',
                    'a new session starts with %s=False' % flag, A.site(bs),
                    key='flag-init-%s' % flag, detail=w.get('self.' + flag))
    for cq in ('base_socket.BaseSocket', 'socket.Socket', 'async_socket.AsyncSocket'):
        ci = A.model.cls(cq)
        for a in ('session', 'queue', 'closed', 'closing'):
            A.check(a not in ci.attrs, rule + '.isolation',
                    '%s has no class-level %s shared by all sessions' % (cq, a),
                    'src/engineio/%s.py' % ci.module.name, key='class-level-%s' % a)
    for name in ('threading', 'gevent', 'gevent_uwsgi', 'eventlet'):
        mi = A.model.modules.get('async_drivers.' + name)
        if mi is None:
            continue
        reg = mi.consts.get('_async')
        if isinstance(reg, ast.Dict):
            for k, v_ in zip(reg.keys, reg.values):
                if isinstance(k, ast.Constant) and k.value == 'queue':
                    A.check(txt(v_) in ('queue.Queue', 'queue.JoinableQueue'), 'C03.fifo' if
                            rule.startswith('C03') else rule + '.fifo',
                            'driver %s uses a FIFO queue class' % name,
                            'src/engineio/async_drivers/%s.py' % name, key='driver-queue-%s' % name,
                            detail=txt(v_), behaviour='messages are delivered out of order')
    cq = A.func('async_server.AsyncServer.create_queue')
    for p in A.paths(A.enum(), cq, cq.cls):
        if p.outcome == 'return':
            A.check(txt(p.value) == 'asyncio.Queue(*args, **kwargs)', rule + '.fifo',
                    'the asyncio server uses asyncio.Queue (FIFO)', A.site(cq),
                    key='async-queue', detail=txt(p.value))


def disconnect_rules(A, fl, rule, block_rule=None):
    fi = A.func(fl['server'] + '.disconnect')
    srv = A.model.cls(fl['server'])
    name = fl['name']
    ps = [p for p in A.paths(A.enum(loop_bound=1), fi, srv) if p.outcome != 'cut' and
          not any(e.kind == 'exc' and e.cls not in (None, 'KeyError') for e in p.events)]
    S = 'self._get_socket(sid)'
    n_one = n_all = 0
    for p in ps:
        v = PV(p)
        ga = set(v.guard_atoms())
        if ('sid is None', False) in ga:
            if any(e.kind == 'handler' for e in v.ev):
                A.check(not v.calls('_x.close(___)') and p.outcome == 'return',
                        rule + '.dead-id-noop', '%s disconnect(sid) of a dead id does nothing'
                        % name, A.site(fi), key='%s-disconnect-dead' % name, detail=v.describe())
                continue
            n_one += 1
            cl = v.calls(S + '.close(___)')
            ok = len(cl) == 1
            if ok:
                c = unawait(v.ev[cl[0][0]].expr)
                kw = {k.arg: txt(k.value) for k in c.keywords}
                ok = kw.get('reason') == 'self.reason.SERVER_DISCONNECT' and not c.args
            A.check(ok, rule + '.reason', '%s disconnect(sid) closes that session with reason '
                    'server disconnect' % name, A.site(fi), key='%s-disconnect-reason' % name,
                    detail=v.describe())
            if ('sid in self.sockets', True) in ga:
                dels = [e for e in v.ev if e.kind == 'del' and txt(e.target) == 'self.sockets[sid]']
                A.check(bool(dels), rule + '.reap', '%s disconnect(sid) removes the session from '
                        'the table' % name, A.site(fi), key='%s-disconnect-reap' % name,
                        detail=v.describe())
        else:
            n_all += 1
            w = [(i, val) for i, val in v.writes('self.sockets')]
            A.check(w and w[-1][1] == '{}', rule + '.reap', '%s disconnect() of all sessions '
                    'empties the table' % name, A.site(fi), key='%s-disconnect-all-reap' % name,
                    detail=v.describe())
            closes = v.calls('_c.close(reason=self.reason.SERVER_DISCONNECT)')
            its = [txt(v.ev[i].expr) for i in v.kinds('iter') if v.ev[i].pol]
            if its:
                A.check(all(t == 'self.sockets.copy().values()' for t in its), rule + '.iteration',
                        '%s disconnect() iterates a copy of the table' % name, A.site(fi),
                        key='%s-disconnect-iter' % name, detail=its,
                        behaviour='RuntimeError: dictionary changed size during iteration')
    A.floor(rule, '%s disconnect(sid) paths' % name, n_one, 1)
    A.floor(rule, '%s disconnect() paths' % name, n_all, 1)
    # asyncio.wait() refuses an empty collection (ValueError): the all-sessions branch must not
    # call it when there is no session
    for p in ps:
        v = PV(p)
        for i, c in v.calls('asyncio.wait(_x)') + v.calls('asyncio.wait(_x, ___)'):
            gb = set(atom(e.expr, e.pol) for e in v.ev[:i] if e.kind == 'guard')
            nonempty = ('self.sockets', True) in gb or ('len(self.sockets) == 0', False) in gb or \
                ('+len(self.sockets) > 0', True) in gb or ('len(self.sockets)', True) in gb
            # ... and the collection has one entry per session: a comprehension over the
            # table without a filter (a filtered one can be empty although the table is not)
            x = unawait(c['x'])
            if isinstance(x, (ast.ListComp, ast.SetComp, ast.GeneratorExp)):
                nonempty = nonempty and not any(g.ifs for g in x.generators) and \
                    txt(x.generators[0].iter) in ('self.sockets.values()',
                                                  'self.sockets.copy().values()')
            A.check(nonempty, rule + '.api-total', '%s disconnect() with no session at all '
                    'returns normally (asyncio.wait is not handed an empty collection)' % name,
                    A.site(fi, v.node(i)), key='%s-disconnect-empty-wait' % name,
                    detail=txt(v.ev[i].expr),
                    behaviour="AsyncServer.disconnect() on a server without sessions raises "
                              "ValueError('Set of Tasks/Futures is empty.')")


def service_task_rules(A, fl, rule):
    fi = A.func(fl['server'] + '._service_task')
    srv = A.model.cls(fl['server'])
    name = fl['name']

    def opaque(st, f):
        s = ast.unparse(st)
        return isinstance(st, ast.If) and 'len(self.sockets) == 0' in s
    ps = [p for p in A.paths(A.enum(loop_bound=1, opaque=opaque, max_paths=40000), fi, srv)
          if p.outcome != 'cut']
    n_chk = n_del = 0
    for p in ps:
        v0 = PV(p)
        marks = [i for i, e in enumerate(v0.ev) if e.kind == 'iter']
        for mi, i in enumerate(marks):
            if not v0.ev[i].pol:
                continue
            EL = '_elem(%s, 0)' % txt(v0.ev[i].expr)
            A.check(txt(v0.ev[i].expr) == 'self.sockets.copy().values()', rule + '.sweep',
                    '%s: the sweep visits every session of a copy of the table' % name,
                    A.site(fi, v0.node(i)), key='%s-sweep-iter' % name,
                    detail=txt(v0.ev[i].expr),
                    behaviour='sessions are skipped / the table changes under the iteration')
            hi = marks[mi + 1] if mi + 1 < len(marks) else len(v0.ev)
            # one visit of one session: events i..hi
            v = PV(p)
            loop = v0.ev[i].node.ast
            lo_l, hi_l = loop.lineno, getattr(loop, 'end_lineno', loop.lineno)
            v.ev = [e for e in v0.ev[i:hi] if e.depth == 0 and e.node is not None and
                    e.node.lineno is not None and lo_l <= e.node.lineno <= hi_l]
            ga = set(v.guard_atoms())
            first_exc = next((j for j, e in enumerate(v.ev) if e.kind == 'exc'), None)
            chk = [j for j, _ in v.calls(EL + '.check_ping_timeout()')]
            dels = [j for j, e in enumerate(v.ev) if e.kind == 'del' and
                    txt(e.target) == 'self.sockets[%s.sid]' % EL]
            if (EL + '.closed', True) in ga:
                n_del += 1
                A.check(bool(dels) and not chk, rule + '.reap', '%s: the sweep removes a closed '
                        'session from the table' % name, A.site(fi), key='%s-sweep-reap' % name,
                        detail=v.describe(50), behaviour='closed sessions are never reaped')
            elif (EL + '.closed', False) in ga and (EL + '.closing', False) in ga:
                if first_exc is not None and not chk:
                    continue
                n_chk += 1
                extra = [a for a, pl in ga if a.startswith(EL + '.') and
                         a not in (EL + '.closed', EL + '.closing')]
                A.check(bool(chk) and not extra, rule + '.sweep', '%s: the sweep evaluates the '
                        'heartbeat deadline of every session that is neither closed nor closing'
                        % name, A.site(fi), key='%s-sweep-check' % name,
                        detail=(['extra condition: %s' % extra] if extra else []) +
                        [e.text() for e in v.ev[:30]],
                        behaviour='a vanished client is never detected: the session stays in the '
                                  'table forever')
            # pacing: one full pass per ping_timeout
            for j, c in v.calls('_e.wait(timeout=_t)') + \
                    v.calls('asyncio.wait_for(_e.wait(), timeout=_t)'):
                t = txt(c['t'])
                A.check(t in ('float(self.ping_timeout) / len(self.sockets)',
                              'self.ping_timeout / len(self.sockets)'), rule + '.pacing',
                        '%s: the sweep sleeps ping_timeout / number-of-sessions between visits '
                        '(one full pass per ping_timeout)' % name, A.site(fi, v.node(j)),
                        key='%s-sweep-pacing' % name, detail=t,
                        behaviour='dead peers are detected later than ping_interval + 3 x '
                                  'ping_timeout')
    A.floor(rule, '%s sweep check paths' % name, n_chk, 1)
    A.floor(rule, '%s sweep reap paths' % name, n_del, 1)
    # started on first connect
    hc = A.func(fl['server'] + '._handle_connect')
    ok = any(match('self.start_background_task(self._service_task)', unawait(n)) is not None
             for n in ast.walk(hc.node) if isinstance(n, ast.Call))
    A.check(ok, rule + '.sweep-start', '%s: the monitor task is started by the first connect when '
            'monitoring is on' % name, A.site(hc), key='%s-sweep-start' % name)


def generate_id_rules(A, rule):
    fi = A.func('base_server.BaseServer.generate_id')
    bs = fi.cls
    ps = [p for p in A.paths(A.enum(follow_handlers=True), fi, bs) if p.outcome == 'return']
    A.floor(rule, 'generate_id paths', len(ps), 1)
    ok_all = len(ps) == 1
    for p in ps:
        v = PV(p)
        site = A.site(fi)
        rv = unawait(p.value)
        # encode(random(n) || counter(k, big))
        m1 = match("base64.b64encode(_rand + self.sequence_number.to_bytes(_k, 'big'))"
                   ".decode('utf-8').replace('/', '_').replace('+', '-')", rv) or \
            match("base64.b64encode(_rand + self.sequence_number.to_bytes(_k, 'big'))"
                  ".decode('utf-8').replace('+', '-').replace('/', '_')", rv) or \
            match("base64.urlsafe_b64encode(_rand + self.sequence_number.to_bytes(_k, 'big'))"
                  ".decode('utf-8')", rv)
        if m1 is None:
            mg = match("base64.b64encode(_rand + self.sequence_number.to_bytes(_k, 'big'))"
                       ".decode('utf-8').replace(_a, _b).replace(_c, _d)", rv)
            if mg is not None:
                try:
                    mp = {ast.literal_eval(mg['a']): ast.literal_eval(mg['b']),
                          ast.literal_eval(mg['c']): ast.literal_eval(mg['d'])}
                except Exception:
                    mp = None
                A.check(mp == {'/': '_', '+': '-'}, rule + '.alphabet',
                        "the two characters of the standard base64 alphabet outside [A-Za-z0-9_-] "
                        "are replaced injectively: '/' -> '_' and '+' -> '-'", site,
                        key='id-replacements', detail=str(mp),
                        behaviour="ids contain '+' or '/' (not URL-safe) or two different ids "
                                  'collapse to the same text')
                return
            if 'b64encode' in txt(rv):
                A.violated(rule + '.template', 'the id is the url-safe base64 encoding of '
                           'random(n) || counter(k bytes, big-endian) as a whole', site,
                           key='id-template', detail=txt(rv),
                           behaviour='ids are not 20 characters over [A-Za-z0-9_-], or random '
                                     'and counter parts are mixed')
            else:
                A.undecided(rule + '.template', 'generate_id matches encode(random(n) || '
                            'counter(k bytes, big-endian))', site, txt(rv))
            return
        rand = unawait(m1['rand'])
        mr = match('secrets.token_bytes(_n)', rand) or match('os.urandom(_n)', rand)
        A.check(mr is not None, rule + '.csprng', 'the random part comes straight from the OS '
                'CSPRNG (secrets.token_bytes / os.urandom) on every call', A.site(fi),
                key='id-random-source', detail=txt(rand),
                behaviour='session ids are predictable (non-cryptographic or recycled '
                          'randomness)')
        try:
            n = ast.literal_eval(mr['n']) if mr else None
            k = ast.literal_eval(m1['k'])
        except Exception:
            A.undecided(rule + '.template', 'byte counts are literals', site, txt(rv))
            return
        if mr is not None:
            A.check(isinstance(n, int) and 8 * n >= 96, rule + '.entropy',
                    'each id embeds at least 96 random bits (8 x %s)' % n, site,
                    key='id-entropy', detail=str(n), behaviour='ids can be guessed')
            A.check((n + k) % 3 == 0 and 4 * (n + k) // 3 == 20, rule + '.alphabet',
                    'n + k = %d bytes encode to exactly 20 characters without padding' % (n + k),
                    site, key='id-length', detail='%d+%d' % (n, k),
                    behaviour="ids are not 20 characters / contain '='")
        # counter update (c + 1) & m with m = 2^(8k) - 1, on every call
        w = v.writes('self.sequence_number')
        A.check(len(w) == 1, rule + '.counter', 'the counter advances exactly once per id', site,
                key='id-counter-once', detail=[x for _, x in w],
                behaviour='two ids of a window share the counter value')
        if len(w) == 1:
            e = unawait(v.ev[w[0][0]].expr)
            mm = match('(self.sequence_number + 1) & _m', e) or \
                match('_m & (self.sequence_number + 1)', e)
            mod = match('(self.sequence_number + 1) % _m', e)
            mask = None
            try:
                if mm is not None:
                    mask = ('and', ast.literal_eval(mm['m']))
                elif mod is not None:
                    mask = ('mod', ast.literal_eval(mod['m']))
            except Exception:
                try:
                    ev_ = AbsEval()
                    mask = None
                except Exception:
                    mask = None
            if mask is None and mm is not None:
                # (1 << 24) - 1
                sh = match('(1 << _b) - 1', mm['m'])
                if sh is not None:
                    mask = ('and', (1 << ast.literal_eval(sh['b'])) - 1)
            if mask is None:
                A.violated(rule + '.counter', 'the counter is advanced as (counter + 1) & (2^(8k) '
                           '- 1) on every issue', A.site(fi, v.node(w[0][0])),
                           key='id-counter-update', detail=txt(e),
                           behaviour='consecutive ids share the counter value: with a repeating '
                                     'random source two ids of a window are equal')
            else:
                period = (mask[1] + 1) if mask[0] == 'and' and (mask[1] & (mask[1] + 1)) == 0 \
                    else (mask[1] if mask[0] == 'mod' else None)
                A.check(period == 2 ** (8 * k), rule + '.counter',
                        'the counter cycles through all 2^(8k) = %d values of its %d bytes: any '
                        '%d consecutive ids differ in the counter field' % (2 ** (8 * k), k,
                                                                        2 ** (8 * k)),
                        A.site(fi, v.node(w[0][0])), key='id-counter-period', detail=txt(e),
                        behaviour='two of 16,777,216 consecutive ids are equal when the random '
                                  'source repeats (shorter period), or to_bytes overflows')
            # the id is built from the counter value before the increment
            gen_i = [i for i, _ in v.calls('base64.b64encode(___)') +
                     v.calls('base64.urlsafe_b64encode(___)')]
            A.check(gen_i and gen_i[0] < w[0][0] or 'self.sequence_number' in txt(rv),
                    rule + '.counter', 'every id embeds the counter', site, key='id-counter-used')
    v_, owner = A.model.class_attr(bs, 'sequence_number')
    A.check(v_ is not None and match('0', v_) is not None, rule + '.counter',
            'the counter starts at 0 as a class attribute and becomes per-instance on first write',
            'src/engineio/base_server.py', key='id-counter-init', detail=txt(v_))
    # the counter is one plain integer attribute per server: a property / descriptor (e.g. a
    # thread-local) gives every worker its own sequence, so two ids issued in a row by
    # different workers carry the same counter value
    for fl_ in FLAVOURS:
        for k in A.model.mro(A.model.cls(fl_['server'])):
            desc = k.methods.get('sequence_number')
            av = k.attrs.get('sequence_number')
            A.check(desc is None and (av is None or match('0', av) is not None),
                    rule + '.counter', '%s: sequence_number is a plain per-server integer '
                    'attribute' % k.qualname, '%s:%d' % (k.module.relpath, k.node.lineno),
                    key='id-counter-plain:%s' % k.qualname,
                    detail=['property/method' if desc is not None else txt(av)],
                    behaviour='consecutively issued ids of one server share the counter value '
                              '(one sequence per thread): equal ids when the random source '
                              'repeats')
    # WHO-MAY: the counter is written by generate_id() only
    for f in A.model.all_funcs():
        if f.module.name.startswith('async_drivers'):
            continue
        for n in own_nodes(f):
            tg = n.targets if isinstance(n, ast.Assign) else \
                [n.target] if isinstance(n, ast.AugAssign) else []
            for t in tg:
                if isinstance(t, ast.Attribute) and t.attr == 'sequence_number':
                    A.check(f.qualname == fi.qualname, rule + '.counter-owner',
                            'the issue counter is advanced by generate_id() only (%s)'
                            % f.qualname, A.site(f, n), key='id-counter-writer:%s' % f.qualname,
                            detail=ast.unparse(n),
                            behaviour='a counter value is issued twice within one window')
    # WHO-MAY: every key stored in self.sockets comes from generate_id()
    for fl in FLAVOURS:
        for f in A.model.all_funcs():
            if f.module.name not in (fl['server'].split('.')[0], 'base_server'):
                continue
            for n in own_nodes(f):
                if isinstance(n, ast.Assign):
                    for t in n.targets:
                        if isinstance(t, ast.Subscript) and txt(t.value) == 'self.sockets':
                            key = txt(t.slice)
                            defs = A.resolver.local_defs(f).get(key, [])
                            A.check(len(defs) == 1 and txt(defs[0]) == 'self.generate_id()',
                                    rule + '.only-generated', 'sessions are stored only under '
                                    'ids from generate_id() (%s)' % f.qualname, A.site(f, n),
                                    key='id-foreign-key', detail=[txt(d) for d in defs],
                                    behaviour='a session id that was not generated by the '
                                              'server becomes addressable')


# ---------------------------------------------------------------------------------------
# NO-BLOCK: unbounded blocking primitives reachable from the request / API roots
# ---------------------------------------------------------------------------------------
def _literal_args(args):
    out = {}
    for k, v in (args or {}).items():
        if isinstance(v, ast.Constant):
            out[k] = v
    return out


def blocking_calls(A, fi, ctx, args, depth=0, stack=(), memo=None, cut=None):
    """Set of (description, chain) of unbounded blocking primitives reachable from fi when
    called with the literal arguments `args` (other parameters symbolic; defaults applied)."""
    memo = memo if memo is not None else {}
    key = (fi.qualname, ctx.qualname if ctx else None,
           tuple(sorted((k, txt(v)) for k, v in (args or {}).items())))
    if key in memo:
        return memo[key]
    memo[key] = set()
    if depth > 7 or fi.qualname in stack:
        return set()
    from sa.paths import bind_args
    en = A.enum(max_paths=200000, refine_raises=False,
                opaque=lambda st, f: isinstance(st, ast.If) and
                'self.http_compression' in ast.unparse(st.test))
    full = {k: v for k, v in (args or {}).items() if isinstance(v, ast.Constant)}
    ps = A.paths(en, fi, ctx, args=full)
    out = set()
    seen_calls = set()
    for p in ps:
        evs = p.events
        for i, e in enumerate(evs):
            if e.kind != 'call' or e.depth != 0:
                continue
            r = e.callee
            t = txt(e.expr)
            sig = (id(e.raw), t)
            if sig in seen_calls:
                continue
            seen_calls.add(sig)
            c = unawait(e.expr)
            if r is None:
                continue
            if r.kind == 'prim':
                pr = str(r.prim)
                kw = {k.arg: k.value for k in c.keywords}
                blk = None
                if pr in ('queue.join', '?.join') and not c.args and pr == 'queue.join':
                    blk = 'queue.join() (waits until every queued packet was taken)'
                elif pr == 'queue.get':
                    bounded = 'timeout' in kw or (
                        'block' in kw and match('False', kw['block']) is not None) or \
                        (c.args and match('False', c.args[0]) is not None)
                    nxt_ = next((x_ for x_ in evs[i + 1:] if x_.kind == 'call' and
                                 x_.depth == 0), None)
                    wrapped = nxt_ is not None and \
                        txt(nxt_.expr).startswith('asyncio.wait_for(' + t)
                    if not bounded and not wrapped:
                        blk = 'queue.get() without timeout'
                elif pr in ('task.join', 'event.wait'):
                    if 'timeout' not in kw and not c.args:
                        blk = '%s() without timeout' % pr
                elif pr == 'extmod:asyncio.wait_for':
                    tmo = kw.get('timeout') or (c.args[1] if len(c.args) > 1 else None)
                    if tmo is None or match('None', tmo) is not None:
                        blk = 'asyncio.wait_for(.., timeout=None)'
                elif pr == 'extmod:asyncio.wait':
                    if 'timeout' not in kw:
                        blk = 'asyncio.wait(..) without timeout'
                if blk:
                    out.add((blk, '%s:%s' % (fi.qualname, e.lineno)))
                continue
            if r.kind in ('repo', 'class'):
                for callee, cctx in r.funcs:
                    if callee is None:
                        continue
                    if cut is not None and cut(callee):
                        continue
                    cargs = bind_args(callee, c, getattr(r, 'self_expr', None))
                    sub = blocking_calls(A, callee, cctx, _literal_args(cargs), depth + 1,
                                         stack + (fi.qualname,), memo, cut)
                    for blk, chain in sub:
                        out.add((blk, '%s:%s -> %s' % (fi.qualname, e.lineno, chain)))
    memo[key] = out
    return out


def no_block_rules(A, fl, rule):
    name = fl['name']
    srv = A.model.cls(fl['server'])

    def cut(callee):
        # the WebSocket upgrade is outside the "non-upgrade request" quantifier
        return callee.name.startswith('_upgrade_') or callee.name == '_websocket_handler'
    roots = [('handle_request', {}), ('send', {}), ('send_packet', {}),
             ('disconnect', {}), ]
    memo = {}
    for rname, args in roots:
        fi = A.func(fl['server'] + '.' + rname)
        found = blocking_calls(A, fi, srv, args, memo=memo, cut=cut)
        if not found:
            A.ok(rule + '.no-block', '%s %s(): no unbounded blocking primitive is reachable'
                 % (name, rname), A.site(fi))
        # one finding per root and primitive kind
        kinds = {}
        for blk, chain in sorted(found):
            kinds.setdefault(blk.split(' (')[0], []).append(chain)
        for blk, chains in kinds.items():
            A.violated(rule + '.no-block', '%s %s() returns in bounded time: it cannot reach %s'
                       % (name, rname, blk), A.site(fi),
                       key='%s-%s-blocks:%s' % (name, rname, blk.split('(')[0]),
                       detail=sorted(chains)[:6],
                       behaviour='the call (or the request worker) stays blocked until a client '
                                 'that may be gone reads its queue')
    A.sample({'rule': rule + '.no-block', 'flavour': name,
              'roots': [r for r, _ in roots], 'summaries': len(memo)})


def post_catch_all_rule(A, fl, rule):
    fi = A.func(fl['server'] + '.handle_request')
    found = False
    for n in ast.walk(fi.node):
        if isinstance(n, ast.Try) and any(
                isinstance(c, ast.Call) and isinstance(c.func, ast.Attribute) and
                c.func.attr == 'handle_post_request' for st in n.body for c in ast.walk(st)):
            found = True
            ok = any(h.type is None or (isinstance(h.type, ast.Name) and
                                        h.type.id in ('BaseException', 'Exception'))
                     for h in n.handlers)
            A.check(ok, rule + '.post-contained', '%s: whatever processing a POST body raises '
                    '(bad form encoding, deep JSON, handler dispatch) is contained in the request'
                    % fl['name'], A.site(fi, n), key='%s-post-catch-all' % fl['name'],
                    behaviour='a malformed body (e.g. "d=" without value, deeply nested JSON) '
                              'makes handle_request raise: no response')
    if not found:
        raise AnalysisError('%s: try around handle_post_request not found in %s'
                            % (rule, fi.qualname))


def asgi_rules(A, rule, buffering_rule=None, response_only=False):
    mi = A.model.module('async_drivers.asgi')
    if buffering_rule and rule == buffering_rule:
        return _asgi_buffering(A, buffering_rule)
    mr = A.func('async_drivers.asgi.make_response')
    ps = [p for p in A.paths(A.enum(follow_handlers=False), mr) if p.outcome != 'cut']
    A.floor(rule, 'asgi.make_response paths', len(ps), 4)
    for p in ps:
        v = PV(p)
        sends = v.calls("environ['asgi.send'](_ev)")
        types = []
        for i, c in sends:
            d = unawait(c['ev'])
            t = None
            if isinstance(d, ast.Dict):
                for k, val in zip(d.keys, d.values):
                    if isinstance(k, ast.Constant) and k.value == 'type' and \
                            isinstance(val, ast.Constant):
                        t = val.value
            types.append(t)
        ga = set(v.guard_atoms())
        if ("environ['asgi.scope']['type'] == 'websocket'", True) in ga:
            ok = len(types) == 1 and types[0] in ('websocket.accept', 'websocket.close')
            if ok and types[0] == 'websocket.accept':
                ok = ("status.startswith('200 ')", True) in ga
            if ok and types[0] == 'websocket.close':
                ok = ("status.startswith('200 ')", False) in ga
            A.check(ok, rule + '.asgi-websocket', 'ASGI: on a websocket scope the response is '
                    'exactly one websocket.accept (status 200) or one websocket.close',
                    A.site(mr), key='asgi-ws-response', detail=[types] + v.describe(),
                    behaviour='http.response.* events are sent on a websocket scope (illegal)')
        else:
            A.check(types == ['http.response.start', 'http.response.body'],
                    rule + '.asgi-http', 'ASGI: an http response is exactly http.response.start '
                    'followed by http.response.body', A.site(mr), key='asgi-http-response',
                    detail=[types] + v.describe(),
                    behaviour='malformed ASGI response sequence')
            st = [unawait(c['ev']) for i, c in sends[:1]]
            if st and isinstance(st[0], ast.Dict):
                d = {k.value: val for k, val in zip(st[0].keys, st[0].values)
                     if isinstance(k, ast.Constant)}
                A.check(txt(d.get('status')) == "int(status.split(' ')[0])", rule + '.asgi-http',
                        'ASGI: the numeric status is taken from the status line', A.site(mr),
                        key='asgi-http-status', detail=txt(d.get('status')))
    if response_only:
        return
    tr = A.func('async_drivers.asgi.translate_request')
    ps = [p for p in A.paths(A.enum(follow_handlers=False, loop_bound=1), tr)
          if p.outcome == 'return']
    A.floor(rule, 'asgi.translate_request returning paths', len(ps), 3)
    seen_empty = False
    for p in ps:
        v = PV(p)
        rv = unawait(p.value)
        has = False
        if isinstance(rv, ast.Dict):
            has = any(isinstance(k, ast.Constant) and k.value == 'REQUEST_METHOD' for k in rv.keys)
        elif isinstance(rv, ast.Name):
            has = True      # the environ dict built above (kept symbolic)
        if not has and not seen_empty:
            seen_empty = True
            A.violated(rule + '.environ-total', 'ASGI: every environ handed to handle_request has '
                       'the keys it subscripts unconditionally (REQUEST_METHOD)', A.site(tr),
                       key='asgi-translate-empty-environ', detail=['returns ' + txt(rv)] +
                       v.describe(12),
                       behaviour="first ASGI event 'http.disconnect' -> KeyError('REQUEST_METHOD') "
                                 'escapes handle_request')
        elif has:
            A.ok(rule + '.environ-total', 'ASGI: translate_request returns a full environ',
                 A.site(tr))
    if buffering_rule:
        _asgi_buffering(A, buffering_rule)


def asgi_env_rules(A, rule):
    """The ASGI environ carries only what the request said about its origin: Host and
    X-Forwarded-* come from the request headers, never from the server side of the scope."""
    tr = A.func('async_drivers.asgi.translate_request')
    for n in ast.walk(tr.node):
        if isinstance(n, ast.Dict):
            for k in n.keys:
                if isinstance(k, ast.Constant) and isinstance(k.value, str) and \
                        k.value.startswith('HTTP_'):
                    A.violated(rule + '.host-from-request', 'ASGI: HTTP_* environ entries come '
                               'from request headers only', A.site(tr, n),
                               key='asgi-env-http-literal:%s' % k.value, detail=k.value)
        if isinstance(n, (ast.Assign, ast.AugAssign)):
            tg = n.targets if isinstance(n, ast.Assign) else [n.target]
            for t in tg:
                if isinstance(t, ast.Subscript) and txt(t.value) == 'environ' and \
                        isinstance(t.slice, ast.Constant) and \
                        str(t.slice.value).startswith('HTTP_'):
                    A.violated(rule + '.host-from-request', "ASGI: environ['%s'] is never "
                               'synthesised by the driver (the default origin policy compares '
                               'the Origin with the Host the client sent)' % t.slice.value,
                               A.site(tr, n), key='asgi-env-synth:%s' % t.slice.value,
                               detail=ast.unparse(n),
                               behaviour='a request without Host header is matched against a '
                                         'server-side name: a foreign Origin is accepted')
        if isinstance(n, ast.Call) and match("environ.setdefault(_k, ___)", n) is not None:
            A.violated(rule + '.host-from-request', 'ASGI: no default for request headers',
                       A.site(tr, n), key='asgi-env-setdefault', detail=ast.unparse(n))
    A.ok(rule + '.host-from-request', 'ASGI translate_request derives HTTP_* entries from the '
         'header loop only', A.site(tr))


def asgi_read_rule(A, rule):
    """AwaitablePayload.read(length) returns at most `length` bytes (all only for None)."""
    tr = A.func('async_drivers.asgi.translate_request')
    cls = tr.nested_classes.get('AwaitablePayload')
    if cls is None or 'read' not in cls.methods:
        raise AnalysisError('%s: asgi AwaitablePayload.read vanished' % rule)
    rd = cls.methods['read']
    ps = [p for p in A.paths(A.enum(follow_handlers=False), rd, cls) if p.outcome == 'return']
    A.floor(rule, 'asgi AwaitablePayload.read paths', len(ps), 2)
    for p in ps:
        v = PV(p)
        ga = set(v.guard_atoms())
        if txt(p.value) == 'self.payload':
            A.check(('length is None', True) in ga, rule + '.bounded-read', 'ASGI: the whole '
                    'buffered body is returned only for read() without a length', A.site(rd),
                    key='asgi-read-all', detail=v.describe(),
                    behaviour='read(0) (absent Content-Length) returns the whole oversize body')
        else:
            A.check(txt(p.value) == 'self.payload[:length]' and ('length is None', False) in ga,
                    rule + '.bounded-read', 'ASGI: read(length) returns at most length bytes',
                    A.site(rd), key='asgi-read-slice', detail=v.describe())


def asgi_body_rule(A, rule):
    """translate_request hands the *whole* request body to the server: every http.request
    event it receives is appended, once and in arrival order, and it stops receiving only
    after an event without more_body (or an event of another type).  A body that is cut
    short is decoded as a different payload: packets are lost, truncated, or a body that
    should be refused whole is accepted."""
    tr = A.func('async_drivers.asgi.translate_request')
    en = A.enum(follow_handlers=False, loop_bound=2, keep={'event', 'payload'},
                max_paths=60000,
                stop=lambda node, f: node.kind == 'stmt' and isinstance(node.ast, ast.Assign)
                and any(isinstance(t, ast.Name) and t.id in ('raw_uri', 'environ')
                        for t in node.ast.targets))
    ps = [p for p in A.paths(en, tr) if p.outcome == 'cut' and (p.cut or '').startswith('stop@')
          or p.outcome == 'return']
    site = A.site(tr)
    n_multi = 0
    beh = 'a POST body that arrives in several ASGI events reaches the server truncated: ' \
          'packets are lost or cut, or an over-long batch is accepted in part'
    for p in ps:
        v = PV(p)
        # segments: one per received event
        segs = []
        for i, e in enumerate(v.ev):
            if e.kind == 'bind' and txt(e.target) == 'event' and e.depth == 0:
                segs.append({'at': i, 'http': None, 'more': None, 'appended': 0, 'empty': False,
                             'shape': True})
                continue
            if not segs:
                continue
            g = segs[-1]
            if e.kind == 'guard' and e.depth == 0:
                a, pl = atom(e.expr, e.pol)
                if a == "event['type'] == 'http.request'":
                    g['http'] = pl
                elif a in ("event.get('more_body')", "event.get('more_body', False)",
                           "event['more_body']"):
                    g['more'] = pl
                elif a in ("event.get('body')", "event['body']") and not pl:
                    g['empty'] = True       # the path knows this chunk is empty
            if e.kind == 'bind' and txt(e.target) == 'payload' and e.depth == 0 and \
                    'event' in txt(e.expr):
                g['appended'] += 1
                val = unawait(e.expr)
                ok = isinstance(val, ast.BinOp) and isinstance(val.op, ast.Add) and \
                    txt(val.left) == 'payload' and txt(val.right) in (
                        "event.get('body') or b''", "event['body']", "event.get('body', b'')",
                        "event['body'] or b''")
                g['shape'] = g['shape'] and ok
        http = [g for g in segs if g['http']]
        if len(http) >= 2:
            n_multi += 1
        for k, g in enumerate(segs):
            if not g['http']:
                continue
            A.check(g['appended'] == 1 and g['shape'] or (g['appended'] == 0 and g['empty']),
                    rule + '.body-assembly', 'ASGI: the body of every http.request event '
                    'received is appended to the request body, once, at the end',
                    A.site(tr, v.node(g['at'])), key='asgi-body-chunk-appended',
                    detail=v.describe(40), behaviour=beh)
            last = k == len(segs) - 1
            if last and p.outcome != 'cut' or last and (p.cut or '').startswith('stop@'):
                A.check(g['more'] is False, rule + '.body-assembly', 'ASGI: receiving stops '
                        'only after an http.request event without more_body',
                        A.site(tr, v.node(g['at'])), key='asgi-body-stop',
                        detail=v.describe(40), behaviour=beh)
            elif not last:
                A.check(g['more'] is True, rule + '.body-assembly', 'ASGI: a further event is '
                        'awaited only while more_body is set', A.site(tr, v.node(g['at'])),
                        key='asgi-body-continue', detail=v.describe(40))
    A.floor(rule, 'asgi translate_request paths with a multi-event body', n_multi, 1)


def _asgi_buffering(A, buffering_rule):
    # body accumulation before the size gate (C14.5)
    tr = A.func('async_drivers.asgi.translate_request')
    if buffering_rule:
        acc = [n for n in ast.walk(tr.node) if isinstance(n, ast.AugAssign) and
               isinstance(n.target, ast.Name) and 'body' in ast.unparse(n.value)]
        loop = [n for n in ast.walk(tr.node) if isinstance(n, ast.While) and
                'more_body' in ast.unparse(n.test)]
        bounded = any('max_http_buffer_size' in ast.unparse(n) or 'CONTENT_LENGTH' in ast.unparse(n)
                      for n in loop)
        if acc and loop and not bounded:
            A.violated(buffering_rule + '.driver-buffering',
                       'ASGI: the request body is not accumulated without bound before the size '
                       'gate of handle_post_request', A.site(tr, loop[0]),
                       key='asgi-translate-unbounded-body',
                       detail='all http.request chunks are concatenated regardless of '
                              'Content-Length and max_http_buffer_size',
                       behaviour='an oversize (or endless) body is buffered whole in memory '
                                 'before the limit is applied')
        else:
            A.ok(buffering_rule + '.driver-buffering', 'ASGI body accumulation is bounded',
                 A.site(tr))


def upgrade_configured_rule(A, fl, rule):
    """C06.4 / F5: the protocol a GET is upgraded to must be one of the configured
    transports on every way into _upgrade_<proto>."""
    name = fl['name']
    fi = A.func(fl['socket'] + '.handle_get_request')
    sock = A.model.cls(fl['socket'])
    tr_t = "environ.get('HTTP_UPGRADE', '').lower()"
    ps = [p for p in A.paths(A.enum(), fi, sock) if p.outcome != 'cut']
    sock_guard = False
    n = 0
    for p in ps:
        v = PV(p)
        if any(e.kind == 'call' and txt(e.expr).startswith("getattr(self, '_upgrade_' + ")
               for e in v.ev):
            n += 1
            ga = set(v.guard_atoms())
            if (tr_t + ' in self.server.transports', True) in ga:
                sock_guard = True
    A.floor(rule, '%s upgrade paths in handle_get_request' % name, n, 1)
    hr, srv, rps = request_paths(A, fl)
    srv_guard = True
    for p in rps:
        v = PV(p, depth=0)
        c = v.calls(SINKS['get'], depth=0)
        if not c:
            continue
        gb = set(atom(e.expr, e.pol) for e in v.ev[:c[0][0]] if e.kind == 'guard')
        if all_equal(gb, ['transport', 'upgrade_header']) and \
                not all_equal(gb, ['self.transport(sid)', 'transport']):
            continue    # the header names the query transport, which was tested
        if not (('upgrade_header in self.transports', True) in gb or
                ('upgrade_header is None', True) in gb):
            srv_guard = False
    A.check(sock_guard or srv_guard, rule + '.configured-transports',
            '%s: a polling GET is upgraded only to a protocol the server was configured to allow '
            '(the Upgrade header value is tested against transports)' % name, A.site(fi),
            key='%s-upgrade-unconfigured-transport' % name,
            detail="GET transport=polling&sid=<live> with 'Upgrade: websocket' reaches "
                   "_upgrade_websocket although 'websocket' may not be in transports",
            behaviour="a transports=['polling'] server lets a client switch the session to "
                      'WebSocket')


def upgrade_header_consistency_rule(A, fl, rule):
    """F18: the admission chain accepts 'transport == Upgrade header' where the socket needs
    'Connection: upgrade' as well."""
    name = fl['name']
    fi = A.func(fl['socket'] + '.handle_get_request')
    sock = A.model.cls(fl['socket'])
    keys_sock = set()
    for p in A.paths(A.enum(), fi, sock):
        v = PV(p)
        if any(e.kind == 'call' and txt(e.expr).startswith("getattr(self, '_upgrade_' + ")
               for e in v.ev):
            for a, pl in v.guard_atoms():
                for k in ('HTTP_CONNECTION', 'HTTP_UPGRADE'):
                    if k in a:
                        keys_sock.add(k)
    hr = A.func(fl['server'] + '.handle_request')
    keys_srv = set()
    for d in REQ_DEFS['upgrade_header']:
        for k in ('HTTP_CONNECTION', 'HTTP_UPGRADE'):
            if k in d:
                keys_srv.add(k)
    conn_used = 'HTTP_CONNECTION' in ast.unparse(hr.node)
    A.check(keys_sock <= keys_srv or conn_used, rule + '.upgrade-consistency',
            '%s: a GET whose query transport differs from the session\'s is admitted as an '
            'upgrade only on the same header evidence the session uses to start one '
            '(Connection: upgrade and Upgrade)' % name, A.site(hr),
            key='%s-upgrade-header-only' % name,
            detail='admission tests %s, the session tests %s' % (sorted(keys_srv),
                                                                 sorted(keys_sock)),
            behaviour="GET transport=websocket&sid=<polling session> with 'Upgrade: websocket' "
                      "but without 'Connection: upgrade' is served as a long-poll")


def upgrade_refusal_harmless_rule(A, fl, rule):
    """C06.3: an upgrade request that is refused with OSError (session already upgraded) or
    fails with an I/O error must not end the session: the request error branch that closes
    the session handles protocol errors (EngineIOError) only."""
    fi, srv, ps = request_paths(A, fl)
    name = fl['name']
    n = 0
    for p in ps:
        v = PV(p, depth=0)
        c = v.calls(SINKS['get'], depth=0)
        if not c:
            continue
        node = v.ev[c[0][0]].node
        ex = [i for i, e in enumerate(v.ev) if e.kind == 'exc' and e.node is node and
              e.cls == 'OSError']
        if not ex:
            continue
        n += 1
        after = [x for i, x in v.effects(0) if i > ex[0]]
        bad = [x for x in after if '.close(' in x or 'self.sockets.pop(' in x or
               '.disconnect(' in x]
        dels = [e for i, e in enumerate(v.ev) if i > ex[0] and e.kind == 'del']
        A.check(not bad and not dels, rule + '.refusal-harmless',
                '%s: an upgrade request that is refused (already upgraded) or hits an I/O error '
                'does not close or remove the session' % name, A.site(fi, node),
                key='%s-upgrade-refusal-closes' % name, detail=v.describe(70),
                behaviour='a second upgrade attempt tears down the established WebSocket '
                          'session (disconnect event, CLOSE, sid removed)')
    A.floor(rule, '%s GET paths where the upgrade raises OSError' % name, n, 1)


def driver_response_rules(A, rule):
    """Every asyncio driver hands status, *all* headers and the body to its framework."""
    for mod in ('aiohttp', 'sanic', 'tornado'):
        mi = A.model.modules.get('async_drivers.' + mod)
        if mi is None or 'make_response' not in mi.functions:
            raise AnalysisError('%s: driver %s has no make_response' % (rule, mod))
        fi = mi.functions['make_response']
        A.counters['functions'].add(fi.qualname)
        ps = [p for p in A.paths(A.enum(loop_bound=1, follow_handlers=False), fi)
              if p.outcome == 'return']
        A.floor(rule, '%s.make_response paths' % mod, len(ps), 1)
        for p in ps:
            v = PV(p)
            its = [i for i in v.kinds('iter') if v.ev[i].pol]
            if mod == 'aiohttp':
                c = unawait(p.value)
                kw = {k.arg: txt(k.value) for k in c.keywords} if isinstance(c, ast.Call) else {}
                A.check(kw.get('headers') == 'headers' and kw.get('body') == 'payload' and
                        kw.get('status') == 'int(status.split()[0])', rule + '.driver-response',
                        'aiohttp driver: status, all headers and the body are passed through',
                        A.site(fi), key='driver-aiohttp-response', detail=txt(p.value),
                        behaviour='Content-Encoding (or another header) set by the server never '
                                  'reaches the client')
                continue
            for i in its:
                A.check(txt(v.ev[i].expr) == 'headers', rule + '.driver-response',
                        '%s driver iterates the header list itself' % mod, A.site(fi),
                        key='driver-%s-iter' % mod, detail=txt(v.ev[i].expr))
            el = '_elem(headers, 0)'
            guards = [(a, pl) for a, pl in v.guard_atoms()]
            extra = [a for a, pl in guards if el in a and
                     a != "%s[0].lower() == 'content-type'" % el]
            if mod == 'tornado':
                extra = [a for a, pl in guards if el in a]
                if its:
                    sets = v.calls("environ['tornado.handler'].set_header(%s[0], %s[1])"
                                   % (el, el)) + v.calls(
                        "tornado_handler.set_header(%s[0], %s[1])" % (el, el))
                    A.check(bool(sets), rule + '.driver-response', 'tornado driver sets every '
                            'header', A.site(fi), key='driver-tornado-set', detail=v.describe())
            if mod == 'sanic' and its:
                is_ct = ("%s[0].lower() == 'content-type'" % el, True) in guards
                w = [val for i_, val in v.writes('{}[%s[0]]' % el)]
                A.check(is_ct or w == ['%s[1]' % el], rule + '.driver-response',
                        'sanic driver copies every header other than Content-Type',
                        A.site(fi), key='driver-sanic-copy', detail=v.describe())
            A.check(not extra, rule + '.driver-response', '%s driver: no header is filtered out '
                    '(the only special case is Content-Type)' % mod, A.site(fi),
                    key='driver-%s-filter' % mod, detail=extra,
                    behaviour='a compressed body is delivered without its Content-Encoding '
                              'header')


def driver_fifo_rule(A, rule):
    """Frames buffered by a driver are handed to the engine in arrival order."""
    mi = A.model.modules.get('async_drivers.gevent_uwsgi')
    if mi is None:
        raise AnalysisError('%s: driver gevent_uwsgi vanished' % rule)
    n = 0
    for node in ast.walk(mi.tree):
        if isinstance(node, ast.Call) and isinstance(node.func, ast.Attribute) and \
                node.func.attr == 'pop' and txt(node.func.value) == 'self.received_messages':
            n += 1
            A.check(len(node.args) == 1 and match('0', node.args[0]) is not None,
                    rule + '.driver-fifo', 'gevent_uwsgi driver: buffered frames are taken from '
                    'the front of the receive buffer', 'src/engineio/async_drivers/gevent_uwsgi.py:%d'
                    % node.lineno, key='driver-uwsgi-pop', detail=txt(node),
                    behaviour='a burst of frames read in one wake-up reaches the message handler '
                              'out of order')
        if isinstance(node, ast.Call) and isinstance(node.func, ast.Attribute) and \
                node.func.attr == 'insert' and txt(node.func.value) == 'self.received_messages':
            A.violated(rule + '.driver-fifo', 'gevent_uwsgi driver appends received frames',
                       'src/engineio/async_drivers/gevent_uwsgi.py:%d' % node.lineno,
                       key='driver-uwsgi-insert', detail=txt(node))
    A.floor(rule, 'gevent_uwsgi receive-buffer pops', n, 2)


# ---------------------------------------------------------------------------------------
# driver WebSocket.send: the message reaches the gateway unchanged, whatever its value
# ---------------------------------------------------------------------------------------
def _py_select(e, ev):
    """The operand a Python ``and`` / ``or`` / conditional expression evaluates to under the
    evaluator ev (None when a needed truth value is unknown)."""
    e = unawait(e)
    if isinstance(e, ast.BoolOp):
        last = None
        for v in e.values:
            last = _py_select(v, ev)
            if last is None:
                return None
            t = ev.truth(last)
            if t is None:
                return None if v is not e.values[-1] else last
            if isinstance(e.op, ast.And) and not t:
                return last
            if isinstance(e.op, ast.Or) and t:
                return last
        return last
    if isinstance(e, ast.IfExp):
        t = ev.truth(e.test)
        if t is None:
            return None
        return _py_select(e.body if t else e.orelse, ev)
    return e


def driver_send_rule(A, rule):
    """Every driver's WebSocket.send(message) hands `message` itself to the gateway, for every
    message the engine can produce: text or bytes, *including the empty ones*.  The ASGI
    driver selects the event field by type: 'bytes' carries a bytes message, 'text' a str
    message, the other field is None."""
    cases = [('non-empty bytes', Kind('bytes', truthy=True, empty=False), True),
             ('empty bytes', Kind('bytes', truthy=False, empty=True), True),
             ('non-empty text', Kind('str', truthy=True, empty=False), False),
             ('empty text', Kind('str', truthy=False, empty=True), False)]
    n = 0
    for ci in A.resolver.driver_ws:
        send = None
        for k in A.model.mro(ci):
            if 'send' in k.methods:
                send = k.methods['send']
                break
        if send is None:
            # send() is inherited from the gateway library (eventlet): nothing of ours to check
            continue
        params = send.params()
        if len(params) < 2:
            raise AnalysisError('%s: %s.send takes no message' % (rule, ci.qualname))
        msg = params[1]
        is_asgi = ci.module.name.endswith('asgi')
        for label, val, binary in cases:
            A.counters['cases'] += 1
            asm = {msg: val}
            ev = AbsEval(assume_from(asm))
            en = A.enum(assume=assume_from(asm), follow_handlers=False)
            ps = [p for p in A.paths(en, send, ci) if p.outcome == 'return']
            A.floor(rule, '%s.send paths for %s' % (ci.qualname, label), len(ps), 1)
            for p in ps:
                n += 1
                v = PV(p)
                carried = False
                for e in v.ev:
                    if e.kind != 'call':
                        continue
                    c = unawait(e.expr)
                    if not isinstance(c, ast.Call):
                        continue
                    if isinstance(c.func, ast.Name) and c.func.id in (
                            'isinstance', 'len', 'str', 'type', 'bytes', 'repr', 'bool'):
                        continue        # inspecting the message is not sending it
                    for a in list(c.args) + [k.value for k in c.keywords]:
                        a = unawait(a)
                        if isinstance(a, ast.Dict) and is_asgi:
                            f = {k.value: x for k, x in zip(a.keys, a.values)
                                 if isinstance(k, ast.Constant)}
                            if f.get('type') is not None and \
                                    match("'websocket.send'", f['type']) is not None:
                                own = _py_select(f.get('bytes' if binary else 'text'), ev) \
                                    if f.get('bytes' if binary else 'text') is not None else None
                                other = _py_select(f.get('text' if binary else 'bytes'), ev) \
                                    if f.get('text' if binary else 'bytes') is not None else None
                                ok = own is not None and txt(own) == msg and \
                                    (other is None and ('text' if binary else 'bytes') not in f
                                     or other is not None and txt(other) == 'None')
                                carried = carried or ok
                        elif txt(_py_select(a, ev) or a) == msg:
                            carried = True
                A.check(carried, rule + '.driver-send',
                        '%s.send(%s) hands the message itself to the gateway (%s)'
                        % (ci.qualname, msg, label), A.site(send),
                        key='driver-send:%s:%s' % (ci.module.name.split('.')[-1], label),
                        detail=v.describe(20),
                        behaviour='an empty binary (or text) message is silently dropped or sent '
                                  'in the wrong frame kind by this driver')
    A.floor(rule, 'driver send cases', n, 20)


# ---------------------------------------------------------------------------------------
# the per-session send queue is unbounded: put() never blocks
# ---------------------------------------------------------------------------------------
def queue_unbounded_rule(A, fl, rule):
    """close() and send() put into the session queue from the monitor task, from request
    workers and from application threads and assume that put() returns at once.  That holds
    because the queue is created without a size: BaseSocket.__init__ asks for it without
    arguments and create_queue() passes exactly the caller's arguments to the queue class."""
    name = fl['name']
    bs = A.func('base_socket.BaseSocket.__init__')
    creates = [n for n in ast.walk(bs.node) if isinstance(n, ast.Call) and
               isinstance(n.func, ast.Attribute) and n.func.attr == 'create_queue']
    if not creates:
        raise AnalysisError('%s: BaseSocket.__init__ does not create the queue' % rule)
    beh = 'a dead or slow peer with a full queue blocks close()/send() in put(): the monitor ' \
          'task hangs and no further dead peer is ever dropped'
    for c in creates:
        A.check(not c.args and not c.keywords, rule + '.unbounded-queue',
                'the session queue is created without a size', A.site(bs, c),
                key='queue-create-args', detail=txt(c), behaviour=beh)
    srv = A.model.cls(fl['server'])
    cq = A.model.find_method(srv, 'create_queue')
    if cq is None:
        raise AnalysisError('%s: create_queue vanished' % rule)
    ps = [p for p in A.paths(A.enum(follow_handlers=False), cq, srv) if p.outcome == 'return']
    A.floor(rule, '%s create_queue paths' % name, len(ps), 1)
    for p in ps:
        v = PV(p)
        c = unawait(p.value)
        ok = isinstance(c, ast.Call) and [txt(a) for a in c.args] == ['*args'] and \
            [(k.arg, txt(k.value)) for k in c.keywords] == [(None, 'kwargs')] and \
            txt(c.func) in ("self._async['queue']", 'asyncio.Queue') and \
            not [e for e in v.ev if e.kind in ('write', 'call') and 'kwargs' in txt(e.expr)
                 and e.expr is not p.value and txt(e.expr) != txt(p.value)]
        A.check(ok, rule + '.unbounded-queue', '%s create_queue() passes exactly the caller\'s '
                'arguments to the queue class (no size of its own)' % name, A.site(cq),
                key='%s-create-queue-passthrough' % name, detail=v.describe(), behaviour=beh)


def driver_queue_rule(A, rule):
    """The tornado handler hands frames (and the close marker, with put_nowait) to the engine
    through a queue of its own: it is unbounded, so that the close marker can always be
    queued."""
    mi = A.model.modules.get('async_drivers.tornado')
    if mi is None:
        raise AnalysisError('%s: tornado driver vanished' % rule)
    n = 0
    for node in ast.walk(mi.tree):
        if isinstance(node, ast.Assign) and any(
                isinstance(t, ast.Attribute) and t.attr == 'receive_queue' for t in node.targets):
            n += 1
            v = node.value
            A.check(isinstance(v, ast.Call) and not v.args and not v.keywords and
                    txt(v.func) in ('asyncio.Queue', 'Queue'), rule + '.driver-queue',
                    'tornado driver: the receive queue is unbounded (on_close() queues the close '
                    'marker with put_nowait)', 'src/engineio/async_drivers/tornado.py:%d'
                    % node.lineno, key='tornado-receive-queue', detail=ast.unparse(node),
                    behaviour='with a backlog the close marker is dropped (QueueFull): the '
                              'session learns of the closed transport only by ping timeout, '
                              'with the wrong reason')
    A.floor(rule, 'tornado receive queue constructions', n, 1)


def create_event_rule(A, fl, rule):
    """create_event() returns the event object of the async model (the monitor waits on it)."""
    srv = A.model.cls(fl['server'])
    ce = A.model.find_method(srv, 'create_event')
    if ce is None:
        raise AnalysisError('%s: create_event vanished' % rule)
    ps = [p for p in A.paths(A.enum(follow_handlers=False), ce, srv) if p.outcome == 'return']
    A.floor(rule, '%s create_event paths' % fl['name'], len(ps), 1)
    for p in ps:
        c = unawait(p.value)
        A.check(isinstance(c, ast.Call) and txt(c.func) in ("self._async['event']",
                                                            'asyncio.Event'),
                rule + '.monitor-armed', '%s create_event() returns the event it created'
                % fl['name'], A.site(ce), key='%s-create-event-return' % fl['name'],
                detail=txt(p.value),
                behaviour='the monitor task dies at its first wait: vanished clients are never '
                          'dropped')


def last_ping_writers_rule(A, fl, rule):
    """WHO-MAY write last_ping: the constructor (None) and _send_ping (None while waiting,
    then the send time).  Anything else that clears it disarms the deadline."""
    name = fl['name']
    sock = A.model.cls(fl['socket'])
    n = 0
    for k in A.model.mro(sock):
        for m in k.methods.values():
            for node in ast.walk(m.node):
                tg = []
                if isinstance(node, ast.Assign):
                    tg = node.targets
                elif isinstance(node, (ast.AugAssign, ast.AnnAssign)):
                    tg = [node.target]
                for t in tg:
                    if isinstance(t, ast.Attribute) and t.attr == 'last_ping':
                        n += 1
                        A.check(m.name in ('__init__', '_send_ping'), rule + '.deadline-owner',
                                '%s: last_ping is written only by the constructor and by '
                                '_send_ping' % name, A.site(m, node),
                                key='%s-last-ping-writer:%s' % (name, m.name),
                                detail='%s writes %s' % (m.qualname, ast.unparse(node)),
                                behaviour='the heartbeat deadline is disarmed (or moved) by '
                                          'something else than the PING that arms it: a silent '
                                          'peer is never dropped')
    A.floor(rule, '%s last_ping writers' % name, n, 2)


def sweep_complete_rule(A, fl, rule):
    """The monitor's pass over the snapshot is not cut short: the only ways out of the for
    loop are its end and the stop signal."""
    fi = A.func(fl['server'] + '._service_task')
    n = 0
    for loop in [x for x in ast.walk(fi.node) if isinstance(x, (ast.For, ast.AsyncFor))
                 and 'self.sockets' in ast.unparse(x.iter)]:
        n += 1
        brk = []

        def rec(node, depth):
            for ch in ast.iter_child_nodes(node):
                if isinstance(ch, (ast.FunctionDef, ast.AsyncFunctionDef, ast.Lambda)):
                    continue
                if isinstance(ch, (ast.For, ast.AsyncFor, ast.While)):
                    rec(ch, depth + 1)
                    continue
                if isinstance(ch, ast.Break) and depth == 0:
                    brk.append(ch)
                if isinstance(ch, ast.Return):
                    brk.append(ch)
                rec(ch, depth)
        for st in loop.body:
            if isinstance(st, (ast.Break, ast.Return)):
                brk.append(st)
            rec(st, 0)
        # leaving because the stop signal was given is the one legitimate way out
        pm_ = parents_map(loop)
        keep = []
        for b in brk:
            cur, stop = b, False
            while cur in pm_:
                cur = pm_[cur]
                if isinstance(cur, ast.If) and 'service_task_event' in ast.unparse(cur.test):
                    stop = True
                    break
            if not stop:
                keep.append(b)
        brk = keep
        A.check(not brk, rule + '.sweep', '%s: a pass of the monitor visits every session of its '
                'snapshot (no break / return inside the pass)' % fl['name'], A.site(fi, loop),
                key='%s-sweep-cut-short' % fl['name'],
                detail=[ast.unparse(b) + ' @L%d' % b.lineno for b in brk],
                behaviour='sessions late in the table are never checked while clients keep '
                          'connecting: a dead peer stays forever')
    A.floor(rule, '%s monitor passes over the session table' % fl['name'], n, 1)


# ---------------------------------------------------------------------------------------
# constructor: how configuration values are stored
# ---------------------------------------------------------------------------------------
def _config_slice(A, fi, word, params):
    """The top-level statements of the constructor that mention `word`, as a function."""
    stmts = [st for st in fi.node.body if word in ast.unparse(st) and
             not isinstance(st, ast.Expr) or (isinstance(st, ast.Expr) and word in
                                              ast.unparse(st) and
                                              not isinstance(st.value, ast.Constant))]
    stmts = [st for st in stmts if not (isinstance(st, ast.Expr) and
                                        'logger' in ast.unparse(st))]
    if not stmts:
        raise AnalysisError('constructor statements about %s vanished' % word)
    return _slice_func(A, fi, stmts, 'cfg_' + word, params)


def transports_value_ok(expr, ev, label, valid):
    """Is expr the stored transports value for the abstract case `label` ('None', 'one
    transport name', 'a list of names')?  `valid`: accepted texts of the list of valid names."""
    val_ = _py_select(expr, ev)
    if label == 'None':
        # nothing configured: every valid transport
        return txt(val_ if val_ is not None else expr) in tuple(valid) + tuple(
            'None or ' + x for x in valid)
    # configured: the valid names among the configured ones, as a list
    cand = val_ if val_ is not None else unawait(expr)
    if isinstance(cand, ast.BoolOp) and isinstance(cand.op, ast.Or) and \
            txt(cand.values[-1]) in valid:
        cand = cand.values[0]
    src = '[transports]' if label.startswith('one') else 'transports'
    return isinstance(cand, ast.ListComp) and len(cand.generators) == 1 and \
        txt(cand.generators[0].iter) == src and \
        txt(cand.elt) == txt(cand.generators[0].target) and \
        [txt(i) for i in cand.generators[0].ifs] in [
            ['%s in %s' % (txt(cand.elt), x)] for x in valid]


def config_rules(A, rule, which=('transports', 'cors')):
    fi = A.func('base_server.BaseServer.__init__')
    bs = A.model.cls('base_server.BaseServer')
    if 'cors' in which:
        # the origin policy is stored exactly as configured: its kind (None / '*' / one origin
        # / list / predicate) is interpreted per request by _cors_allowed_origins
        for word in ('cors_allowed_origins', 'cors_credentials'):
            sl = _config_slice(A, fi, word, ['self', word])
            ps = [p for p in A.paths(A.enum(follow_handlers=False), sl, bs) if p.outcome != 'cut']
            A.floor(rule, 'constructor paths storing %s' % word, len(ps), 1)
            for p in ps:
                v = PV(p)
                w = [val for i, val in v.writes('self.' + word)]
                A.check(p.outcome == 'return' and w and w[-1] == word, rule + '.config',
                        'the constructor stores %s exactly as given' % word, A.site(fi),
                        key='ctor-config-%s' % word, detail=v.describe(),
                        behaviour='a configured origin (list) is rewritten at start-up: e.g. a '
                                  "single origin containing '*' becomes allow-all")
    if 'transports' in which:
        sl = _config_slice(A, fi, 'transports', ['self', 'transports'])
        cases = [('None', Const(None)), ('one transport name', Kind('str', truthy=True, empty=False)),
                 ('a list of names', Kind('list'))]
        for label, val in cases:
            A.counters['cases'] += 1
            asm = {'transports': val}
            ev = AbsEval(assume_from(asm))
            ps = [p for p in A.paths(A.enum(assume=assume_from(asm), follow_handlers=False),
                                     sl, bs) if p.outcome == 'return']
            A.floor(rule, 'constructor paths for transports=%s' % label, len(ps), 1)
            for p in ps:
                v = PV(p)
                wr = [e.expr for e in v.ev if e.kind == 'write' and
                      txt(e.target) == 'self.transports']
                ok = bool(wr) and transports_value_ok(wr[-1], ev, label,
                                                      ('self.valid_transports',))
                A.check(ok, rule + '.config', 'the constructor stores the configured transports '
                        'as the list of valid names among them (%s)' % label, A.site(fi),
                        key='ctor-config-transports', detail=[txt(x) for x in wr] + v.describe(),
                        behaviour="with transports='polling' the admission test "
                                  "'transport in self.transports' becomes a substring test: "
                                  "transport=poll or transport=ling is let in")


def middleware_passthrough_rule(A, rule):
    """The WSGI/ASGI middleware hands the request to the Engine.IO server as it came: it does
    not rewrite what the admission chain reads (method, query, headers)."""
    for qual, var, allowed in (('middleware.WSGIApp.__call__', 'environ', ("'eventlet.input'",)),
                               ('async_drivers.asgi.ASGIApp.__call__', 'scope', ())):
        fi = A.func(qual)
        n = 0
        for node in ast.walk(fi.node):
            tg = []
            if isinstance(node, ast.Assign):
                tg = node.targets
            elif isinstance(node, (ast.AugAssign, ast.AnnAssign)):
                tg = [node.target]
            elif isinstance(node, ast.Delete):
                tg = node.targets
            elif isinstance(node, ast.Call) and isinstance(node.func, ast.Attribute) and \
                    isinstance(node.func.value, ast.Name) and node.func.value.id == var and \
                    node.func.attr in ('update', 'pop', 'setdefault', 'clear', '__setitem__'):
                tg = [node]
            for t in tg:
                if isinstance(t, ast.Subscript) and isinstance(t.value, ast.Name) and \
                        t.value.id == var:
                    n += 1
                    A.check(txt(t.slice) in allowed, rule + '.passthrough',
                            '%s does not rewrite the request it dispatches' % qual.split('.')[-2],
                            A.site(fi, node), key='middleware-rewrites:%s' % qual.split('.')[-2],
                            detail=ast.unparse(node),
                            behaviour='the Engine.IO server sees another request than the one '
                                      'the client made (e.g. HEAD served as GET: a HEAD opens a '
                                      'session or drains a queue)')
                elif isinstance(t, ast.Call):
                    A.violated(rule + '.passthrough', '%s does not rewrite the request it '
                               'dispatches' % qual.split('.')[-2], A.site(fi, node),
                               key='middleware-rewrites:%s' % qual.split('.')[-2],
                               detail=ast.unparse(node))
        A.ok(rule + '.passthrough', '%s: %d writes to the request mapping, all allowed'
             % (qual, n), A.site(fi))


def cors_per_response_rule(A, fl, rule):
    """The CORS headers of a response are computed from *this* request, on every response,
    and are added to a copy of the response's header list."""
    name = fl['name']
    beh = 'CORS headers computed for one request are replayed on another (refused origin, ' \
          'other host, other server)'
    if name == 'asyncio':
        fi = A.func(fl['server'] + '._make_response')
        srv = A.model.cls(fl['server'])
        ps = [p for p in A.paths(A.enum(follow_handlers=False), fi, srv) if p.outcome == 'return']
        A.floor(rule, 'asyncio _make_response paths', len(ps), 2)
        for p in ps:
            v = PV(p)
            cors = v.calls('self._cors_headers(environ)')
            mk = [(i, c) for i, c in v.calls("self._async['make_response'](_s, _h, _b, _e)")]
            ok = len(cors) == 1 and len(mk) == 1 and cors[0][0] < mk[0][0] and \
                txt(mk[0][1]['h']) == "response_dict['headers'] + self._cors_headers(environ)"
            A.check(ok, rule + '.cors-per-response', 'asyncio: every response gets the CORS '
                    'headers computed from its own request, appended to a copy of its header '
                    'list', A.site(fi), key='asyncio-cors-per-response', detail=v.describe(),
                    behaviour=beh)
    else:
        fi, srv, ps = request_paths(A, fl)
        n = 0
        for p in ps:
            if p.outcome != 'return':
                continue
            v = PV(p)
            sr = v.calls('start_response(_s, _h)', depth=0)
            if not sr:
                continue
            n += 1
            cors = [i for i, _ in v.calls('self._cors_headers(environ)')]
            h = txt(sr[-1][1]['h'])
            ok = len(cors) == 1 and h == "r['headers'] + self._cors_headers(environ)" and \
                not any(e.kind == 'write' and txt(e.target) == "r['headers']" and
                        '_cors_headers' in txt(e.expr) for e in v.ev)
            if not cors and h == "r['headers']":
                ok = True       # an early refusal carries no CORS header at all
            A.check(ok, rule + '.cors-per-response', 'threaded: every response gets the CORS '
                    'headers computed from its own request, appended to a copy of its header '
                    'list', A.site(fi, v.node(sr[-1][0])), key='threaded-cors-per-response',
                    detail=[h] + v.describe(8), behaviour=beh)
        A.floor(rule, 'threaded responding paths', n, 20)


def limit_sites_rule(A, rule):
    """Where the inbound limits live: the packet-count limit is the class attribute
    Payload.max_decode_packets that decode() reads (nothing stores a per-instance copy), and
    the aiohttp gateway is created without a message size limit of its own (the engine applies
    max_http_buffer_size itself, with its own comparison)."""
    pl = A.model.cls('payload.Payload')
    n = 0
    for m in pl.methods.values():
        for node in ast.walk(m.node):
            tg = node.targets if isinstance(node, ast.Assign) else (
                [node.target] if isinstance(node, (ast.AugAssign, ast.AnnAssign)) else [])
            for t in tg:
                if isinstance(t, ast.Attribute) and t.attr == 'max_decode_packets':
                    A.violated(rule + '.limit-site', 'Payload instances do not carry their own '
                               'copy of max_decode_packets', A.site(m, node),
                               key='payload-instance-limit', detail=ast.unparse(node),
                               behaviour='a limit configured on the class after import is '
                                         'ignored: more packets than configured are dispatched')
                    n += 1
    dec = A.func('payload.Payload.decode')
    reads = [x for x in ast.walk(dec.node) if isinstance(x, ast.Attribute) and
             x.attr == 'max_decode_packets']
    A.check(bool(reads) and all(txt(x.value) in ('self', 'Payload', 'type(self)', 'self.__class__')
                                for x in reads), rule + '.limit-site',
            'Payload.decode compares with the class attribute max_decode_packets',
            A.site(dec), key='payload-limit-read', detail=[txt(x) for x in reads])
    if n == 0:
        A.ok(rule + '.limit-site', 'no method of Payload assigns max_decode_packets',
             'src/engineio/payload.py')
    mi = A.model.modules.get('async_drivers.aiohttp')
    if mi is None:
        raise AnalysisError('%s: aiohttp driver vanished' % rule)
    k = 0
    for node in ast.walk(mi.tree):
        if isinstance(node, ast.Call) and txt(node.func).endswith('WebSocketResponse'):
            k += 1
            kw = {x.arg: x.value for x in node.keywords}
            A.check('max_msg_size' in kw and match('0', kw['max_msg_size']) is not None,
                    rule + '.driver-limit', 'aiohttp driver: the gateway WebSocket is created '
                    'with max_msg_size=0 (no second size limit with another definition)',
                    'src/engineio/async_drivers/aiohttp.py:%d' % node.lineno,
                    key='aiohttp-max-msg-size', detail=txt(node),
                    behaviour='frames of exactly the limit (or multi-byte text below it) are '
                              'rejected by the gateway although the engine would accept them')
    A.floor(rule, 'aiohttp WebSocketResponse constructions', k, 1)


def asgi_header_codec_rule(A, rule):
    """The ASGI driver decodes request header values and encodes response header values with
    the same codec: CORS reflects request values (Origin, Access-Control-Request-Headers)
    into response headers, so whatever was decoded must be encodable again."""
    tr = A.func('async_drivers.asgi.translate_request')
    mr = A.func('async_drivers.asgi.make_response')

    def codecs(fn, meth, about):
        out = []
        for n in ast.walk(fn.node):
            if isinstance(n, ast.Call) and isinstance(n.func, ast.Attribute) and \
                    n.func.attr == meth and about(ast.unparse(n.func.value)):
                c = n.args[0] if n.args else next((k.value for k in n.keywords
                                                   if k.arg == 'encoding'), None)
                out.append((n, ast.literal_eval(c) if isinstance(c, ast.Constant) else
                            ('utf-8' if c is None else None)))
        return out
    dec = codecs(tr, 'decode', lambda t: 'hdr_' in t or 'header' in t.lower())
    enc = codecs(mr, 'encode', lambda t: t.startswith('h[') or 'header' in t.lower())
    if not dec or not enc:
        raise AnalysisError('%s: header (de)coding sites of the ASGI driver not found' % rule)

    def norm(c):
        return None if c is None else c.lower().replace('_', '-')
    dset = {norm(c) for _n, c in dec}
    for n, c in enc:
        A.check(norm(c) in dset and len(dset) == 1, rule + '.header-codec',
                'ASGI: response headers are encoded with the codec request headers are decoded '
                'with (%s)' % sorted(x for x in dset if x), A.site(mr, n),
                key='asgi-header-codec', detail=ast.unparse(n),
                behaviour='a request whose Origin / Access-Control-Request-Headers value is '
                          'outside that codec makes make_response raise: no response at all')


def get_result_rule(A, fl, rule):
    """What a GET on an existing session answers: the packet list polled from the session goes
    out as one payload (`_ok(packets, jsonp_index)`), anything else the session returned (the
    response of a finished WebSocket) is passed through as it is."""
    fi, srv, ps = request_paths(A, fl)
    name = fl['name']
    n = 0
    for p in ps:
        v = PV(p)
        gi = [i for i, e in enumerate(v.ev) if e.kind == 'bind' and e.depth == 0 and
              'socket.handle_get_request(' in txt(e.expr)]
        if not gi or p.outcome != 'return':
            continue
        var = txt(v.ev[gi[0]].target)
        after = v.ev[gi[0] + 1:]
        if any(e.kind == 'exc' for e in after):
            continue        # what happens after a failure is the error rules' business
        pol = None
        gpos = None
        for k_, e in enumerate(after):
            if e.kind == 'guard' and e.depth == 0:
                a, pl = atom(e.expr, e.pol)
                if a == 'isinstance(%s, list)' % var:
                    pol, gpos = pl, k_
                    break
        if pol is None:
            A.violated(rule + '.get-result', '%s: the result of the session\'s GET handler is '
                       'classified (packet list or finished response)' % name,
                       A.site(fi, v.node(gi[0])), key='%s-get-result-unclassified' % name,
                       detail=v.describe(60))
            continue
        n += 1
        rb = [txt(e.expr) for e in after[gpos:] if e.kind == 'bind' and e.depth == 0 and
              txt(e.target) == 'r']
        js = ('jsonp_index', 'None', "int(query['j'][0])")
        if pol:
            ok = bool(rb) and rb[0] in tuple('self._ok(%s, jsonp_index=%s)' % (var, j) for j in js)
        else:
            ok = (bool(rb) and rb[0] == var) or (var == 'r' and not rb)
        A.check(ok, rule + '.get-result',
                '%s: polled packets are answered as one payload, a finished WebSocket response '
                'is passed through' % name, A.site(fi, v.node(gi[0])),
                key='%s-get-result' % name, detail=rb[:2] + v.describe(8),
                behaviour='a poll is answered with something that is not a response / packets '
                          'taken from the queue never reach the client')
    A.floor(rule, '%s classified GET results' % name, n, 2)


def monitor_default_rule(A, rule):
    """Clients are monitored unless the application says otherwise: the constructor takes
    monitor_clients when given and the class default otherwise, and that default is True."""
    fi = A.func('base_server.BaseServer.__init__')
    bs = A.model.cls('base_server.BaseServer')
    sl = _config_slice(A, fi, 'monitor_clients', ['self', 'monitor_clients'])
    for label, val, want in (('not given', Const(None), 'self._default_monitor_clients'),
                             ('given', Kind('bool'), 'monitor_clients')):
        asm = {'monitor_clients': val}
        ps = [p for p in A.paths(A.enum(assume=assume_from(asm), follow_handlers=False), sl, bs)
              if p.outcome == 'return']
        A.floor(rule, 'constructor paths for monitor_clients %s' % label, len(ps), 1)
        for p in ps:
            v = PV(p)
            w = [val_ for i, val_ in v.writes('self.start_service_task')]
            A.check(w and w[-1] == want, rule + '.monitor-armed',
                    'monitor_clients %s: start_service_task is %s' % (label, want), A.site(fi),
                    key='ctor-monitor-%s' % label.replace(' ', '-'), detail=v.describe(),
                    behaviour='the client monitor is not started: vanished clients are never '
                              'dropped')
    n = 0
    for k in [bs] + [c for mi in A.model.modules.values() for c in mi.classes.values()
                     if c is not bs and bs in A.model.mro(c)]:
        v_ = k.attrs.get('_default_monitor_clients')
        if v_ is not None:
            n += 1
            A.check(isinstance(v_, ast.Constant) and v_.value is True, rule + '.monitor-armed',
                    '%s: clients are monitored by default' % k.qualname,
                    '%s:%d' % (k.module.relpath, getattr(v_, 'lineno', 0)),
                    key='monitor-default:%s' % k.name, detail=txt(v_),
                    behaviour='the client monitor is not started: vanished clients are never '
                              'dropped')
    A.floor(rule, 'definitions of _default_monitor_clients', n, 1)


def idle_guard_rule(A, fl, rule):
    """The monitor idles (waits ping_timeout, then starts over) exactly when the table is empty;
    the pass - and its division by the number of sessions - runs only when it is not."""
    fi = A.func(fl['server'] + '._service_task')
    n = 0
    for node in ast.walk(fi.node):
        if isinstance(node, ast.If):
            a, pl = atom(node.test, True)
            body = ' '.join(ast.unparse(x) for x in node.body)
            if a in ('len(self.sockets) == 0', 'self.sockets', 'len(self.sockets)',
                     '+len(self.sockets) > 0', '-len(self.sockets) >= 0') and \
                    any(isinstance(x, ast.Continue) for st in node.body for x in ast.walk(st)):
                n += 1
                empty_true = (a == 'len(self.sockets) == 0' and pl) or \
                    (a in ('self.sockets', 'len(self.sockets)') and not pl) or \
                    (a == '+len(self.sockets) > 0' and not pl) or \
                    (a == '-len(self.sockets) >= 0' and pl)
                A.check(empty_true, rule + '.sweep',
                        '%s: the monitor idles exactly when there is no session'
                        % fl['name'], A.site(fi, node), key='%s-sweep-idle-guard' % fl['name'],
                        detail=ast.unparse(node.test),
                        behaviour='with sessions present the monitor only sleeps (nobody is ever '
                                  'checked); without sessions it divides by zero and dies')
    A.floor(rule, '%s idle branch of the monitor' % fl['name'], n, 1)


def driver_wait_rule(A, rule):
    """Every driver's WebSocket.wait() returns what the gateway delivered (some return path
    yields a value computed from the received frame), not a constant."""
    n = 0
    for ci in A.resolver.driver_ws:
        wait = None
        for k in A.model.mro(ci):
            if 'wait' in k.methods:
                wait = k.methods['wait']
                break
        if wait is None:
            continue
        ps = [p for p in A.paths(A.enum(follow_handlers=True, loop_bound=1), wait, ci)
              if p.outcome == 'return']
        if not ps:
            continue
        n += 1
        nonconst = [p for p in ps if p.value is not None and
                    not isinstance(unawait(p.value), ast.Constant)]
        A.check(bool(nonconst), rule + '.driver-wait',
                '%s.wait() hands the received frame to the engine' % ci.qualname, A.site(wait),
                key='driver-wait:%s' % ci.module.name.split('.')[-1],
                detail=[txt(p.value) for p in ps][:4],
                behaviour='every frame looks like a closed connection: no packet sent over '
                          'WebSocket is ever dispatched with this driver')
    A.floor(rule, 'driver wait() methods', n, 5)


# ---------------------------------------------------------------------------------------
# asyncio drivers: translate_request builds a CGI-style environ (cross-checked siblings)
# ---------------------------------------------------------------------------------------
def driver_environ_rule(A, rule):
    """Every asyncio driver's translate_request gives handle_request the request it got:
    the environ is returned, it names method, query string and path, Content-Type and
    Content-Length go to their CGI variables, every other header to HTTP_<NAME> (dashes ->
    underscores) with the header's own value (or the comma-joined values of a repeated
    header).  The four drivers are siblings: the facts are the same oracle for each."""
    need_keys = {'wsgi.input', 'REQUEST_METHOD', 'QUERY_STRING', 'RAW_URI'}
    beh = 'with this driver the server sees another request than the client sent: e.g. a POST ' \
          'body is read with length 0 (messages lost) or the Origin / Upgrade header is missing'
    for mod in ('aiohttp', 'sanic', 'tornado', 'asgi'):
        mi = A.model.modules.get('async_drivers.' + mod)
        if mi is None or 'translate_request' not in mi.functions:
            raise AnalysisError('%s: driver %s has no translate_request' % (rule, mod))
        fi = mi.functions['translate_request']
        A.counters['functions'].add(fi.qualname)
        keep = {'hdr_name', 'hdr_value', 'key', 'environ'}

        def opaque(st, f):
            # the body-assembly loop of the ASGI driver has its own rule
            return isinstance(st, ast.If) and 'more_body' in ast.unparse(st)
        en = A.enum(follow_handlers=False, loop_bound=1, keep=keep, max_paths=60000,
                    opaque=opaque)
        ps = [p for p in A.paths(en, fi) if p.outcome == 'return']
        n_env = n_ct = n_cl = n_other = 0
        for p in ps:
            v = PV(p)
            rv = txt(p.value)
            if rv == '{}':
                continue        # the ASGI driver's answer to an unknown event (known finding)
            n_env += 1
            A.check(rv == 'environ', rule + '.driver-environ', '%s: translate_request returns '
                    'the environ it built' % mod, A.site(fi), key='driver-environ-return:%s' % mod,
                    detail=rv, behaviour=beh)
            lit = next((e.expr for e in v.ev if e.kind == 'bind' and txt(e.target) == 'environ'
                        and isinstance(unawait(e.expr), ast.Dict)), None)
            keys = set()
            if lit is not None:
                d = unawait(lit)
                keys = {k.value for k in d.keys if isinstance(k, ast.Constant)}
                vals = {k.value: x for k, x in zip(d.keys, d.values) if isinstance(k, ast.Constant)}
                q = vals.get('QUERY_STRING')
                if q is not None:
                    qt = txt(q)
                    A.check(('query' in qt or qt == "''") and 'unquote' not in qt and
                            'parse_qs' not in qt, rule + '.driver-environ',
                            '%s: QUERY_STRING is the raw (still percent-encoded) query string, empty text when '
                            'absent' % mod,
                            A.site(fi), key='driver-environ-query:%s' % mod, detail=qt,
                            behaviour=beh)
            keys |= {txt(e.target)[len("environ['"):-2] for e in v.ev if e.kind == 'write' and
                     txt(e.target).startswith("environ['")}
            A.check(need_keys <= keys and 'PATH_INFO' in keys, rule + '.driver-environ',
                    '%s: the environ names input, method, query string, raw URI and path' % mod,
                    A.site(fi), key='driver-environ-keys:%s' % mod,
                    detail=sorted((need_keys | {'PATH_INFO'}) - keys), behaviour=beh)
            # one iteration of the header loop, judged by constant folding on three
            # representative header names: for every name the path is consistent with, the
            # key that is written must be the CGI variable of that name
            hg = [e for e in v.ev if e.kind == 'guard' and e.depth == 0 and
                  'hdr_name' in txt(e.expr)]
            if not hg:
                continue
            for cand, want in (('CONTENT-TYPE', 'CONTENT_TYPE'),
                               ('CONTENT-LENGTH', 'CONTENT_LENGTH'),
                               ('X-FOO-BAR', 'HTTP_X_FOO_BAR')):
                consts = {'hdr_name': Const(cand)}

                def assume(e, consts=consts):
                    if isinstance(e, ast.Name):
                        return consts.get(e.id)
                    return None
                ev = AbsEval(assume)
                consistent = True
                joined = None
                wrote = []
                for e in v.ev:
                    if e.depth != 0:
                        continue
                    if e.kind == 'guard' and 'hdr_name' in txt(e.expr):
                        t = ev.truth(e.expr)
                        if t is not None and t != e.pol:
                            consistent = False
                            break
                    elif e.kind == 'guard' and atom(e.expr, e.pol)[0] == 'key in environ':
                        joined = atom(e.expr, e.pol)[1]
                    elif e.kind == 'bind' and txt(e.target) in ('key', 'hdr_name') and \
                            txt(e.target) != 'hdr_name':
                        c = ev.eval(e.expr)
                        if isinstance(c, Const):
                            consts[txt(e.target)] = c
                    elif e.kind == 'write' and txt(e.target).startswith('environ[') and \
                            isinstance(e.target, ast.Subscript):
                        k = ev.eval(e.target.slice)
                        if isinstance(k, Const) and isinstance(k.v, str) and (
                                k.v.startswith('HTTP_') or k.v.startswith('CONTENT_')):
                            wrote.append((k.v, txt(e.expr)))
                        elif not isinstance(k, Const):
                            wrote.append((txt(e.target.slice), txt(e.expr)))
                if not consistent:
                    continue
                if cand == 'CONTENT-TYPE':
                    n_ct += 1
                elif cand == 'CONTENT-LENGTH':
                    n_cl += 1
                else:
                    n_other += 1
                hv = [txt(e.expr) for e in v.ev if e.kind == 'bind' and
                      txt(e.target) == 'hdr_value' and 'environ[' in txt(e.expr)]
                ok = len(wrote) == 1 and wrote[0] == (want, 'hdr_value')
                if cand == 'X-FOO-BAR' and joined:
                    ok = ok and hv in (["f'{environ[key]},{hdr_value}'"],
                                       ["environ[key] + ',' + hdr_value"])
                else:
                    ok = ok and not hv
                A.check(ok, rule + '.driver-environ', '%s: a %s header is stored under %s with '
                        'its own value%s' % (mod, cand.title() if cand != 'X-FOO-BAR' else
                                             'general (X-Foo-Bar)', want,
                                             ' (comma-joined when repeated)'
                                             if cand == 'X-FOO-BAR' else ''),
                        A.site(fi), key='driver-environ-header:%s:%s' % (mod, want),
                        detail=[str(wrote)] + hv, behaviour=beh)
        A.floor(rule, '%s translate_request environ paths' % mod, n_env, 1)
        A.floor(rule, '%s Content-Type header paths' % mod, n_ct, 1)
        A.floor(rule, '%s Content-Length header paths' % mod, n_cl, 1)
        A.floor(rule, '%s other-header paths' % mod, n_other, 1)


def driver_handler_rule(A, rule):
    """A driver WebSocket runs the engine's handler: calling the object (the WSGI / ASGI entry
    of the upgrade request) reaches ``handler(self)`` - the function it was constructed
    with - on its normal path."""
    n = 0
    for ci in A.resolver.driver_ws:
        call = None
        for k in A.model.mro(ci):
            if '__call__' in k.methods:
                call = k.methods['__call__']
                break
        if call is None:
            continue        # inherited from the gateway library (eventlet)
        init = A.model.find_method(ci, '__init__')
        stored = set()
        if init is not None:
            for node in ast.walk(init.node):
                if isinstance(node, ast.Assign) and isinstance(node.value, ast.Name) and \
                        node.value.id in init.params()[1:2]:
                    for t in node.targets:
                        if isinstance(t, ast.Attribute) and txt(t.value) == 'self':
                            stored.add(t.attr)
        if not stored:
            continue        # the handler is handed to the gateway class (super().__init__)
        n += 1
        ps = [p for p in A.paths(A.enum(follow_handlers=False, loop_bound=1), call, ci)
              if p.outcome == 'return']
        ran = [p for p in ps if any(
            e.kind == 'call' and any(txt(unawait(e.expr)) == 'self.%s(self)' % a for a in stored)
            for e in p.events)]
        A.check(bool(ran) and len(ran) == len([p for p in ps if not any(
            e.kind == 'guard' and 'gunicorn' in txt(e.expr) for e in p.events)]) or bool(ran),
            rule + '.driver-handler', '%s: the upgrade request runs the handler the object was '
            'built with' % ci.qualname, A.site(call),
            key='driver-handler:%s' % ci.module.name.split('.')[-1],
            detail=[d for p in ps[:2] for d in p.describe(12)],
            behaviour='the WebSocket is accepted but the engine never reads from or writes to it')
    A.floor(rule, 'driver WebSocket classes that store the handler', n, 4)


# ---------------------------------------------------------------------------------------
# round-5 rules
# ---------------------------------------------------------------------------------------
REASONS = {'CLIENT_DISCONNECT': 'client disconnect', 'SERVER_DISCONNECT': 'server disconnect',
           'PING_TIMEOUT': 'ping timeout', 'TRANSPORT_CLOSE': 'transport close',
           'TRANSPORT_ERROR': 'transport error'}


def reason_constants_rule(A, rule):
    """The disconnect reasons are five different documented texts: two causes with the same
    text cannot be told apart by a handler."""
    for qual in ('base_server.BaseServer', 'base_client.BaseClient'):
        ci = A.model.cls(qual)
        rc = ci.nested_classes.get('reason')
        if rc is None:
            raise AnalysisError('%s: %s.reason vanished' % (rule, qual))
        vals = {}
        for k, v in rc.attrs.items():
            if isinstance(v, ast.Constant) and isinstance(v.value, str):
                vals[k] = v.value
        for k, want in REASONS.items():
            if k in vals or qual.startswith('base_server'):
                A.check(vals.get(k) == want, rule + '.reason-texts',
                        '%s.reason.%s is %r' % (qual, k, want),
                        '%s:%d' % (ci.module.relpath, getattr(rc.node, 'lineno', 0)),
                        key='reason-text:%s:%s' % (qual.split('.')[-1], k),
                        detail=repr(vals.get(k)),
                        behaviour='the disconnect reason does not name the cause')
        A.check(len(set(vals.values())) == len(vals), rule + '.reason-texts',
                '%s.reason: the reasons are pairwise different' % qual,
                '%s:%d' % (ci.module.relpath, getattr(rc.node, 'lineno', 0)),
                key='reason-distinct:%s' % qual.split('.')[-1], detail=sorted(vals.items()))


def awaited_rule(A, fl, rule):
    """asyncio flavour: a coroutine method of the server / session that is called for its
    effect is awaited (a bare call only creates a coroutine object: nothing happens)."""
    if fl['name'] != 'asyncio':
        return
    names = set()
    for qual in (fl['server'], fl['socket']):
        for k in A.model.mro(A.model.cls(qual)):
            for m in k.methods.values():
                if isinstance(m.node, ast.AsyncFunctionDef):
                    names.add(m.name)
    n = 0
    for qual in (fl['server'], fl['socket']):
        ci = A.model.cls(qual)
        for m in ci.methods.values():
            for node in ast.walk(m.node):
                if isinstance(node, ast.Expr) and isinstance(node.value, ast.Call) and \
                        isinstance(node.value.func, ast.Attribute) and \
                        node.value.func.attr in names:
                    recv = txt(node.value.func.value)
                    if recv == 'self' or recv.startswith('self.sockets') or recv in (
                            'socket', 's', 'client', 'self.server'):
                        n += 1
                        A.violated(rule + '.awaited', 'asyncio: %s() is awaited where it is '
                                   'called for its effect' % node.value.func.attr,
                                   A.site(m, node), key='asyncio-unawaited:%s:%s' % (
                                       m.name, node.value.func.attr), detail=ast.unparse(node),
                                   behaviour='the call does nothing (the coroutine is never '
                                             'run): e.g. the session is dropped from the table '
                                             'without a disconnect event')
    if n == 0:
        A.ok(rule + '.awaited', 'asyncio: no coroutine method is called without await (%d '
             'coroutine names)' % len(names), 'src/engineio/async_server.py')


def heartbeat_config_rule(A, rule):
    """The constructor stores ping_timeout as configured (the deadline the application asked
    for is the deadline that is applied)."""
    fi = A.func('base_server.BaseServer.__init__')
    bs = A.model.cls('base_server.BaseServer')
    sl = _config_slice(A, fi, 'ping_timeout', ['self', 'ping_timeout', 'ping_interval'])
    ps = [p for p in A.paths(A.enum(follow_handlers=False), sl, bs) if p.outcome != 'cut']
    A.floor(rule, 'constructor paths storing ping_timeout', len(ps), 1)
    for p in ps:
        v = PV(p)
        w = [val for i, val in v.writes('self.ping_timeout')]
        A.check(p.outcome == 'return' and w == ['ping_timeout'], rule + '.config',
                'the constructor stores ping_timeout exactly as given', A.site(fi),
                key='ctor-config-ping_timeout', detail=w + list(v.describe(12)),
                behaviour='a peer that answers within the configured ping_timeout is dropped '
                          '(or a dead one is kept longer than configured)')


def asgi_close_reason_rule(A, rule):
    """The value a connect handler rejected with reaches an ASGI WebSocket client whole: the
    close reason is the payload as text, not a slice or a rewrite of it."""
    mr = A.func('async_drivers.asgi.make_response')
    ps = [p for p in A.paths(A.enum(follow_handlers=False, loop_bound=1), mr)
          if p.outcome == 'return']
    accepted = ("payload.decode('utf-8')", 'payload.decode()', 'str(payload)', 'payload',
                "str(payload, 'utf-8')", "payload.decode(encoding='utf-8')")
    n = 0
    for p in ps:
        v = PV(p)
        vals = []
        for i, e in enumerate(v.ev):
            if e.kind == 'call' and 'websocket.close' in txt(e.expr):
                for d in ast.walk(unawait(e.expr)):
                    if isinstance(d, ast.Dict):
                        for k, val in zip(d.keys, d.values):
                            if isinstance(k, ast.Constant) and k.value == 'reason':
                                vals.append((i, val))
            if e.kind == 'write' and txt(e.target).endswith("['reason']"):
                vals.append((i, e.expr))
        for i, val in vals:
            n += 1
            t = txt(unawait(val))
            A.check(t in accepted, rule + '.reject-value', 'ASGI: the WebSocket close reason '
                    'carries the rejection value unchanged', A.site(mr, v.node(i)),
                    key='asgi-close-reason', detail=[t] + list(v.describe(12)),
                    behaviour='a rejected WebSocket open does not carry the value the connect '
                              'handler returned')
    A.floor(rule, 'asgi make_response paths giving a close reason', n, 1)

def asgi_wait_fields_rule(A, rule):
    """An ASGI ``websocket.receive`` event carries *both* keys, ``bytes`` and ``text``, one of
    them None: wait() returns the field that is set.  A return of one field alone is only
    accepted under a test of a field's *value* (key presence says nothing)."""
    ci = A.model.cls('async_drivers.asgi.WebSocket')
    wait = ci.methods.get('wait')
    if wait is None:
        raise AnalysisError('%s: asgi WebSocket.wait vanished' % rule)
    ps = [p for p in A.paths(A.enum(follow_handlers=True, loop_bound=1), wait, ci)
          if p.outcome == 'return' and p.value is not None]
    A.floor(rule, 'asgi wait() return paths', len(ps), 1)
    fld = re.compile(r"\.get\('(bytes|text)'\)|\['(bytes|text)'\]")
    for p in ps:
        v = PV(p)
        rv = txt(unawait(p.value))
        named = {a or b for a, b in fld.findall(rv)}
        tested = [a for a, _ in v.guard_atoms(decided=False) if fld.search(a)]
        ok = named == {'bytes', 'text'} or (len(named) == 1 and bool(tested))
        A.check(ok, rule + '.driver-wait', 'asgi wait() returns the field of the receive event '
                'that is set (binary or text)', A.site(wait), key='asgi-wait-fields',
                detail=[rv] + list(v.describe(10)),
                behaviour='a text frame is read as None under ASGI: the read loop takes it for '
                          'a closed connection and every WebSocket session dies on its first '
                          'text packet')


def asgi_close_total_rule(A, rule):
    """AsyncSocket._websocket_handler relies on ws.close() never raising (its final close() of
    the session comes after it).  Under ASGI the send callable of a connection that is gone
    raises: an OSError subclass according to the ASGI specification, RuntimeError in uvicorn.
    The handler around the ``websocket.close`` send covers both."""
    ci = A.model.cls('async_drivers.asgi.WebSocket')
    cl = ci.methods.get('close')
    if cl is None:
        raise AnalysisError('%s: asgi WebSocket.close vanished' % rule)
    ps = [p for p in A.paths(A.enum(follow_handlers=True), cl, ci) if p.outcome != 'cut']
    caught = set()
    n = 0
    for p in ps:
        v = PV(p)
        s = [i for i, e in enumerate(v.ev) if e.kind == 'call' and 'websocket.close' in txt(e.expr)]
        if not s:
            continue
        n += 1
        hs = [e for e in v.ev[s[0] + 1:] if e.kind == 'handler']
        if hs and p.outcome == 'return':
            caught |= set(str(hs[0].cls).split('|'))
    A.floor(rule, 'asgi close() paths sending websocket.close', n, 1)
    P = A.resolver.exc_parents
    for want in ('OSError', 'RuntimeError'):
        ok = '*' in caught or any(c in ('Exception', 'BaseException') or c == want or
                                  exc_is_subclass(want, c, P) for c in caught)
        A.check(ok, rule + '.driver-close', 'asgi WebSocket.close() does not raise when the '
                'connection is already gone (%s from the send is swallowed)' % want,
                A.site(cl), key='asgi-close-swallows:%s' % want, detail=sorted(caught),
                behaviour='the exception escapes the writer task, _websocket_handler skips its '
                          'final close(): the session of a gone client stays in the table and '
                          'no disconnect event is delivered')
