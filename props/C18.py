"""C18 - threaded and asyncio servers agree (DESIGN.md 5/C18)."""
import ast
import json
import os
import re

from sa.expr import txt, atom, unawait
from sa.model import AnalysisError
from . import sockrules as S
from . import srvrules as R
from .seq import PV
from .common import placeholder_bind

from .meta import meta
META = meta('C18', level='other', extra_tb=None)

PAIRS = [
    ('server.Server', 'async_server.AsyncServer',
     ['send', 'send_packet', 'get_session', 'save_session', 'disconnect', 'handle_request',
      '_handle_connect', '_trigger_event', '_service_task']),
    ('socket.Socket', 'async_socket.AsyncSocket',
     ['poll', 'receive', 'check_ping_timeout', 'send', 'handle_get_request',
      'handle_post_request', 'close', 'schedule_ping', '_send_ping', '_upgrade_websocket',
      '_websocket_handler', '_websocket_handler.<locals>.websocket_wait',
      '_websocket_handler.<locals>.writer']),
]

NORM = [
    (r'async_socket\.AsyncSocket', 'socket.Socket'),
    (r'asyncio\.wait_for\(self\.queue\.get\(\), (.*)\)$', r'self.queue.get(timeout=\1)'),
    (r'self\.queue\.get_nowait\(\)', 'self.queue.get(block=False)'),
    (r'self\.queue\.put_nowait\(', 'self.queue.put('),
    (r'asyncio\.sleep\(', 'self.server.sleep('),
    (r'asyncio\.ensure_future\(writer\(\)\)', 'self.server.start_background_task(writer)'),
    (r', start_response\)', ')'),
    (r'\(environ, start_response, ', '(environ, '),
    (r'translate_request\(\*args, \*\*kwargs\)', 'environ'),
    (r'asyncio\.wait_for\(self\.queue\.get\(\), (self\.server\.ping_interval \+ self\.server\.ping_timeout)\)',
     r'self.queue.get(timeout=\1)'),
    (r'asyncio\.wait_for\((.*)\.wait\(\), timeout=(.*)\)$', r'\1.wait(timeout=\2)'),
    (r'self\.create_event\(\)', 'self.service_task_event'),
    (r'float\(self\.ping_timeout\)', 'self.ping_timeout'),
    (r'^return self\._make_response\((self\._bad_request\(.*\)), environ\)$', r'def r := \1'),
]
DROP = [r'^return self\._make_response\(r, environ\)$', r"^return \[r\['response'\]\]$",
        r'^call start_response\(', r'^call self\._make_response\(', r'^call self\.queue\.get\(\)$',
        r'^call asyncio\.iscoroutinefunction\(', r'^handler ', r'^call .*\.logger\.',
        r'^call self\._log_error_once\(', r'^call self\.logger\.', r'^exc ',
        r'^call asyncio\.get_running_loop\(\)', r'^call str\(', r'^call isinstance\(',
        r'^call len\(', r'^call sys\.exc_info\(\)', r'^call int\(', r'^call float\(']


def tokens(A, fi, ctx):
    def opaque(st, f):
        return isinstance(st, (ast.If, ast.For)) and ('self.http_compression' in ast.unparse(st)
                                                      or 'settimeout' in ast.unparse(st))
    keep = set()
    if fi.name == 'handle_request':
        keep = {'environ', 'query', 'sid', 'transport', 'method', 'upgrade_header', 'origin',
                'allowed_origins', 'socket', 'r', 'translate_request'}
    en = A.enum(opaque=opaque, max_paths=150000, refine_raises=False, keep=keep, loop_bound=1)
    out = set()
    for p in A.paths(en, fi, ctx):
        alias = {}      # kept name -> text of the session-handler call it holds on this path
        path_out = []

        def sub(t):
            for nm_, d in alias.items():
                t = re.sub(r'(?<![\w.\'"])%s(?![\w\'"])' % re.escape(nm_), lambda _m: d, t)
            return t

        def add(t):
            path_out.append(sub(t))
        for i, e in enumerate(p.events):
            if e.depth != 0:
                continue
            if e.kind == 'bind' and placeholder_bind(p, i):
                continue
            if e.kind == 'bind':
                nm = txt(e.target)
                if nm in alias and not txt(e.expr).startswith('socket.handle_'):
                    path_out.append('def %s := %s' % (nm, sub(txt(e.expr))))   # about the old value
                    alias.pop(nm, None)
                    continue
                alias.pop(nm, None)
                if txt(e.expr).startswith('socket.handle_'):
                    # the response variable holds the session handler's result for a while
                    # (``r = socket.handle_get_request(..)``): later facts are stated about
                    # that result, whatever the local is called
                    alias[nm] = txt(e.expr)
                    continue
            if e.kind == 'guard' and e.cls != 'decided':
                a, pl = atom(e.expr, e.pol)
                add('guard ' + a)
            elif e.kind == 'call':
                c_ = unawait(e.expr)
                if isinstance(c_, ast.Call) and isinstance(c_.func, ast.Attribute) and \
                        c_.func.attr == 'append' and isinstance(c_.func.value, ast.List):
                    # the receiver is the list built so far: its length depends on how far
                    # the loop was unrolled, the fact is what is appended
                    # (and what is appended shows in every later fact about the list: the
                    # append itself is the same term as a longer list display)
                    continue
                else:
                    add('call ' + txt(e.expr))
            elif e.kind == 'write':
                add('write %s = %s' % (txt(e.target), txt(e.expr)))
            elif e.kind == 'del':
                add('del ' + txt(e.target))
            elif e.kind == 'raise':
                st_ = getattr(e.node, 'ast', None)
                if isinstance(st_, ast.Raise) and st_.exc is None:
                    continue    # a bare re-raise passes on what came (like a finally clause)
                add('raise %s' % e.cls)
            elif e.kind == 'bind':
                add('def %s := %s' % (txt(e.target), txt(e.expr)))
        if p.outcome == 'return':
            rv = unawait(p.value) if p.value is not None else None
            if isinstance(rv, ast.List) and len(rv.elts) > 1:
                # a list built in a loop: repeated elements only tell the unrolling depth
                el = []
                for x in rv.elts:
                    if not el or txt(x) != el[-1]:
                        el.append(txt(x))
                path_out.append('return [%s]' % ', '.join(el))
            else:
                path_out.append('return ' + txt(p.value))
        out.update(path_out)
    norm = set()
    for t in out:
        for pat, rep in NORM:
            t = re.sub(pat, rep, t)
        if any(re.search(d, t) for d in DROP):
            continue
        norm.add(t)
    return norm


def sibling_diff(A):
    path = os.path.join(os.path.dirname(os.path.dirname(os.path.abspath(__file__))), 'spec',
                        'reviewed_differences.json')
    reviewed = json.load(open(path)) if os.path.exists(path) else {'differences': []}
    rev = {(d['function'], d['side'], d['fact']): d for d in reviewed['differences']}
    used = set()
    diffs = []
    for ca, cb, funcs in PAIRS:
        cia, cib = A.model.cls(ca), A.model.cls(cb)
        for fn in funcs:
            fa = A.func(ca + '.' + fn)
            fb = A.func(cb + '.' + fn)
            ta, tb = tokens(A, fa, cia), tokens(A, fb, cib)
            A.counters['cases'] += 1
            only_a = sorted(ta - tb)
            only_b = sorted(tb - ta)
            for side, lst, f in (('threaded', only_a, fa), ('asyncio', only_b, fb)):
                for t in lst:
                    key = (fn, side, t)
                    diffs.append(key)
                    if key in rev:
                        used.add(key)
                        continue
                    A.violated('C18.sibling', '%s: threaded and asyncio implementations state the '
                               'same protocol facts' % fn, A.site(f),
                               key='sibling:%s:%s:%s' % (fn, side, t),
                               detail=['only in the %s implementation: %s' % (side, t)],
                               behaviour='the two servers behave differently on the same history '
                                         '(a change landed in one implementation only)')
            if not [d for d in diffs if d[0] == fn and d not in rev]:
                A.ok('C18.sibling', '%s: fact sets agree modulo the reviewed differences (%d facts)'
                     % (fn, len(ta | tb)), A.site(fa))
    A.notes.append('sibling diff: %d differing facts, %d reviewed entries used of %d'
                   % (len(diffs), len(used), len(rev)))
    return diffs


def check(A):
    sibling_diff(A)
    # what the asyncio server is handed must be what the threaded one is handed
    R.asgi_body_rule(A, 'C18')
    R.limit_sites_rule(A, 'C18')
    R.driver_fifo_rule(A, 'C18')
    for fl in S.FLAVOURS:
        S.receive_table(A, fl, 'C18')
        S.close_once(A, fl, 'C18')
        S.post_request(A, fl, 'C18')
        S.get_request_rules(A, fl, 'C18')
        R.admission_rules(A, fl, 'C18', parts=('defs', 'sinks'))
        R.handle_connect_rules(A, fl, 'C18')
        S.upgrade_handshake(A, fl, 'C18')
        S.who_may_rules(A, fl, 'C18')
        S.upgrade_exit_state(A, fl, 'C18')
        R.trigger_event_rules(A, fl, 'C18')
        if A.tier == 'thorough':
            S.poll_rules(A, fl, 'C18')
            S.upgrade_exit_state(A, fl, 'C18')
            S.ws_read_loop(A, fl, 'C18')
            S.ping_task_rules(A, fl, 'C18')
            S.ping_timeout_rules(A, fl, 'C18')
            S.send_rules(A, fl, 'C18')
            R.service_task_rules(A, fl, 'C18')
            R.disconnect_rules(A, fl, 'C18')
            R.api_rules(A, fl, 'C18')
            R.response_rules(A, fl, 'C18')
