"""C17 - session ids (DESIGN.md 5/C17)."""
from . import srvrules as R

from .meta import meta
META = meta('C17', level='proof', extra_tb=['base64 is injective on fixed-length input and emits only [A-Za-z0-9+/=]', 'secrets.token_bytes / os.urandom are the OS CSPRNG'])


def check(A):
    R.generate_id_rules(A, 'C17')
    # the id a client is told is the id its session is stored under (OPEN built per connection)
    from .sockrules import FLAVOURS
    for fl in FLAVOURS:
        R.handle_connect_rules(A, fl, 'C17')
