"""C17 - session ids (DESIGN.md 5/C17)."""
from . import srvrules as R

META = {'level': 'proof', 'explanation': 'see DESIGN.md 5/C17', 'trusted_base': [],
        'not_decided': [], 'assumptions': []}


def check(A):
    R.generate_id_rules(A, 'C17')
