"""Evidence metadata per property: what is decided statically, what is not, trusted base."""

COMMON_TB = [
    'CPython ast module parses the sources as the interpreter would',
    'the abstract evaluator of sa/absval.py (isinstance / type / is / == / in / len / truthiness '
    'on builtin kinds and literals)',
    'the repository-specific receiver model of sa/resolve.py (self.server of a socket is the '
    'server class that constructs it; values read from self.sockets are sockets; driver '
    'WebSocket objects run the handler they were built with)',
    'exception edges are explicit-raise based (a raise statement in the package or a driver); '
    'exceptions only a library call can raise are followed into handlers, not out of functions',
]

_ND = {
    'C01': ['loads(dumps(x)) == x and b64decode(b64encode(x)) == x for all values (library '
            'semantics, trusted)', 'mutation of packet.data after construction'],
    'C02': ['decode(encode(ps)) == ps for all payloads without U+001E (value level)',
            'what urllib.parse.parse_qs does to a given form body'],
    'C03': ['exactly-once / in-order / liveness over all interleavings of sends, overlapping '
            'polls, handshake steps and closes (schedules)',
            'that every message is delivered if the client keeps reading (liveness)'],
    'C04': ['that background handlers each complete', 'payload equality beyond "the same object '
            'is passed"'],
    'C05': ['races between threads entering close() within the same two bytecodes',
            'which of two causes simultaneous in wall-clock time came first',
            'that the monitor eventually notices a vanished client (timing)',
            'what a gateway object raises after the peer is gone (e.g. the ASGI server\'s send): '
            'whether a driver\'s close() can fail is outside the repository'],
    'C06': ['that queued packets are retrieved by later polls (liveness)',
            'concurrent polls during the handshake (schedules)'],
    'C07': ['"a live peer is never dropped" and "a dead peer is dropped within interval + 3 x '
            'timeout" for all timings: these quantify over arrival times and scheduler latency; '
            'only the wiring, the deadline predicate and the bounds are decided'],
    'C08': ['that the loops terminate under every server fault (liveness)',
            'behaviour of real requests / websocket-client / aiohttp failures (library semantics)'],
    'C09': ['completion order of message handlers run in background threads',
            'actual timing of silence detection', 'that nothing is lost across a failed upgrade '
            'under all schedules'],
    'C10': ['exactly-once / in-order both ways, indefinite keep-alive, one disconnect on each '
            'side over all conversations and schedules: only the composition facts visible in the '
            'code are decided (producer bound <= consumer limit, timer dominance, same codec, same '
            'handshake constants)'],
    'C11': ['JSON serialisability of arbitrary connect-handler return values'],
    'C12': ['that a refused request leaves concurrent requests undisturbed (histories)'],
    'C13': ['what a user-supplied origin predicate returns'],
    'C14': ['byte length vs character length of text frames', "the gateway's own input stream"],
    'C15': ['real termination and "bounded time" (needs a model of the queue and of the peer)',
            'validity of header values', 'behaviour of the gateway'],
    'C16': ['"removed within a bounded number of sweeps" and "after any history the table holds '
            'exactly the live sessions" (histories, time)'],
    'C17': ['two threads reading the same counter value (schedules are not in the quantifier)'],
    'C18': ['observational equivalence over histories, clocks and faults: structural agreement '
            'of the protocol logic is decided (fact sets of sibling functions + the same oracle '
            'rules on both flavours); threads vs tasks and queue.Queue vs asyncio.Queue are '
            'assumed to correspond'],
    'C19': ['that gzip/zlib round-trip', 'q-value semantics of Accept-Encoding (gzip;q=0 is '
            'parsed as an offer)'],
    'C20': ['file-system facts (symlinks, what exists)'],
}

_EX = {
    'C01': 'Abstract execution (kind/constant propagation over the CFG, nothing is run) of '
           'Packet.__init__, encode and decode for every abstract input case; the provenance term '
           'of every return / attribute write is compared with the Engine.IO v4 wire table; the '
           'encode cache is explored as a finite abstract state machine over all sequences of '
           'encode calls (fixpoint). '
           'Also: the payload splitter hands every packet text to decode() unchanged, and the client WebSocket writers put binary packets (and only those) in binary frames.'
           ' Also (round 5): the constructor\'s json option rules under this property.',
    'C02': 'Provenance terms of Payload.encode for 0/1/2 packets; on every path of decode that '
           'builds packets the refusal guard must have the exact integer form over the number of '
           'parts of the very string that is split; self.packets is written all-or-nothing; the '
           'd= variant feeds the same split; decode is loop-free and raises only ValueError; the '
           'text-channel form itself is checked through the C01 cache rule. '
           'Also: the packet decode table (C01) under this property; BaseServer._ok answers an empty packet list with an (empty) payload; the ASGI driver appends every http.request event it receives, once and in order, and stops only after an event without more_body.',
    'C03': 'Ownership and gating skeleton: the session queue is consumed only in poll(); poll() is '
           'called only by the polling GET (behind the not-upgrading/upgraded gate), the OPEN '
           'response and the WebSocket writer (started only once upgraded); inside poll every '
           'dequeued packet is appended once in order, only the None sentinel is re-queued, every '
           'dequeue is task_done-accounted; the writer sends each packet of a batch once in order '
           'on the binary channel; driver queues are FIFO classes; sessions own fresh queues; '
           'send_packet enqueues on the session of its own sid; every exit of an upgrade request '
           'leaves upgrading False. '
           'Also: every driver send() hands the message itself to the gateway for text/bytes, empty or not; JSONP wrapping for every index given (0 included); the GET result is classified (packet list -> one payload, otherwise passed through).',
    'C04': 'Dispatch table of receive() over wire types 0..9 on both servers (exact effect per '
           'type, every pre-dispatch statement total on 0..9); handle_post_request: exact size '
           'gate, bounded read, whole body decoded before the first dispatch, one receive per '
           'packet in order, closed-test before every dispatch; WebSocket loop: one dispatch per '
           'frame, unknown types ignored; protocol errors routed to 400 + session end. '
           'Also: an EngineIOError subclass raised by the session handlers is taken by the protocol-error clause and by no earlier clause (exception classes may have several bases); the packet decode table; ASGI body assembly. '
           'Also: every asyncio driver maps the request to a CGI-style environ (Content-Length / Content-Type / HTTP_*), runs the handler it was built with and hands received frames on.'
           ' Also (round 5): the ASGI wait() returns the field of the receive event that is set (value test, not key presence).',
    'C05': 'ONCE(disconnect) in close(): guard on closed/closing, closing=True before the handler, '
           'nothing between test and set, flags monotone; reasons per close site; nothing is '
           'dispatched to a closed session (POST loop and WebSocket loop); handler exceptions are '
           'contained by a catch-all around every handler call (connect: reject); the connect '
           'event fires once after the session is stored and OPEN queued; reject path removes the '
           'entry and serves nothing. '
           'Also: the tornado driver queues its close marker into an unbounded queue.'
           ' Also (round 5): the five disconnect reasons are the documented, pairwise different texts; asyncio: no coroutine method of server/session is called without await; the ASGI close() swallows OSError and RuntimeError of the send.',
    'C06': 'Every path that sets upgraded=True on a connected session carries wait -> PING probe '
           '-> send PONG probe -> queue NOOP -> wait -> UPGRADE in order; EXIT-STATE: on every '
           'exit (normal or explicit-raise) of the upgrade request region (_upgrade_websocket + '
           'driver call + handler + frame reader, inlined) upgrading is False; an upgraded '
           'session refuses re-upgrade before a driver object exists; direct WebSocket sessions '
           'are upgraded before any I/O; the upgrade protocol must be a configured transport. '
           'Also: no EngineIOError (sub)class leaves the handshake (handle_request would end the polling session for it), with per-flavour driver raise summaries; without a driver the upgrade is refused with 400 and no effect. '
           'Also: a driver WebSocket object runs the handler it was built with.'
           ' Also (round 5): upgraded=True is written before upgrading=False (asyncio: only an await in between counts); the advertised-upgrades rule under this property.',
    'C07': 'Wiring and bounds, not timing: schedule_ping starts one _send_ping; _send_ping clears '
           'last_ping, sleeps exactly ping_interval, then on every path with the session neither '
           'closing nor closed stamps last_ping and sends PING; check_ping_timeout closes iff '
           'last_ping set and now - last_ping - ping_timeout > 0 (linear form) with PING_TIMEOUT, '
           'wait=False, abort=False; send() evaluates it before enqueuing; poll waits at most '
           'ping_interval + ping_timeout. '
           'Also: last_ping is written only by the constructor and _send_ping; the session queue is created without a size (put() never blocks the monitor); a monitor pass is not left early except on the stop signal. '
           'Also: the monitor idles exactly when the table is empty and is started by default; the packet-count gate (C02) under this property.'
           ' Also (round 5): the constructor stores ping_timeout as given; WHO-MAY call schedule_ping: _handle_connect and receive (through any chain of new helpers).',
    'C08': 'connect() always starts with a fresh queue; failed connects raise ConnectionError '
           'before state/registration change; success adopts the announced values, fires connect '
           'once, starts the loops; disconnect(): one event after the state left "connected", '
           'CLOSE + sentinel, unregister, _reset; read-loop epilogues: ONCE with state change '
           'before the event, unregister + reset, every failure break preceded by put(None); read '
           'timeouts bounded by the announced timing. '
           'Also: _reset() unconditionally sets state/sid first and clears nothing that connect() reads after the handshake packets / connect handler ran; response bodies are decoded under the invalid-response handler; handler calls of _trigger_event are contained and the legacy disconnect retry has the client arity. '
           'Also: 2xx gates of the polling responses as integer forms, loop conditions, write-loop sentinel, create_queue/_send_request return values, transports normalisation, a closed HTTP session is replaced.'
           ' Also (round 5): the payload decoder rules (every record decoded, none filtered) under this property.',
    'C09': 'Dispatch table of _receive_packet over types 0..9 (PONG echoes pkt.data, MESSAGE one '
           'background event, CLOSE -> server disconnect, total on 0..9); write loop: dequeue '
           'order, no re-queue, polling batch as one payload, binary frames iff pkt.binary, batch '
           'bounded by Payload.max_decode_packets; URL table over transport x scheme; upgrade only '
           'through PING probe / PONG probe / UPGRADE; receive timeouts. '
           'Also: the encode/cache table of Packet.encode (falsy payloads included) under this property; _reset() rules.',
    'C10': 'Composition facts: client batch bound <= server per-body limit (same class attribute), '
           'announced pingInterval/pingTimeout and client receive timeouts dominate the ping '
           'period (scaled before truncation), both sides use the same Packet/Payload classes and '
           'the same probe constants in the same order, an empty binary frame is not taken for a '
           'closed connection, one disconnect per side. '
           'Also: ASGI body assembly; driver send(); client legacy disconnect retry arity; JSONP wrapping.',
    'C11': 'Path rules on _handle_connect (both servers): one generated id used as table key, OPEN '
           'sid and connect-event argument; OPEN first; field provenance (pingTimeout = '
           'int(t*1000), pingInterval = int((i+g)*1000), maxPayload); cookie iff configured; '
           'reject -> entry deleted + 401 with the handler value; _upgrades advertises websocket '
           'only under every condition under which an upgrade would be accepted; handler '
           'exceptions (also BaseException) reject the connection. '
           'Also: _ok keeps the headers its caller built (the handshake cookie); only task cancellation is swallowed without a verdict in _trigger_event; the upgrade-header test of the session GET handler.'
           ' Also (round 5): the ASGI close reason is the rejection payload as text, unsliced; id generator rules under this property.',
    'C12': 'Every path of handle_request to a sink (_handle_connect, handle_get_request, '
           'handle_post_request) must carry the full set of admission guards in normalised form '
           '(transport allowed, EIO == [\'4\'] when opening, method, sid present/absent, sid in '
           'table, _get_socket lookup, session-transport or upgrade match, numeric JSONP index); '
           'request attributes are derived by the expected expressions; refusals are 400/405 and '
           'inert (no event, close, queue access or table write); failed lookups never escape. '
           'Also: the constructor stores transports as the list of valid names among the configured ones (never a bare string); the WSGI/ASGI middleware does not rewrite the request mapping; a refused upgrade leaves upgrading False. '
           'Also: every asyncio driver builds the environ the admission chain reads (raw query string, CGI header mapping).',
    'C13': 'The origin test is decided before query parsing / table access on every path; a '
           'refused origin returns 400 with no other effect; _cors_allowed_origins returns None or '
           'a list for every configuration kind (a single string is wrapped: exact match); ACAO is '
           'emitted only with the request origin under the accept condition; credentials iff '
           'enabled; nothing when disabled. '
           'Also: the constructor stores the origin policy unchanged; every response gets the CORS headers computed from its own request, appended to a copy of a fresh header list. '
           'Also: Allow-Methods / Allow-Headers are emitted exactly for OPTIONS / when the request names headers; the conditions under which the default origin set is built.',
    'C14': 'Linear-form size gates: POST refused iff length - max > 0 before any read, read '
           'bounded by the checked length; WebSocket frames read only through the gated reader '
           '(len - max > 0 refuses), all three read points; packet count gate (C02); oversize '
           'errors routed to 400 + session end; ASGI body buffering reported. '
           'Also: Payload instances carry no copy of max_decode_packets; the aiohttp gateway is created without a size limit of its own; ASGI body assembly.',
    'C15': 'Response constructors (status literal, (str,str) header pairs, bytes body, fresh '
           'header list); exactly one start_response / _make_response per request path; protocol '
           'errors -> 400 + non-waiting close; POST processing contained by a catch-all; failed '
           'lookups do not escape; NO-BLOCK: no unbounded blocking primitive reachable from '
           'handle_request (non-upgrade), send, send_packet, disconnect after pruning by literal '
           'keyword arguments; ASGI make_response event sequences; translate_request totality. '
           'Also: ASGI header values are encoded with the codec they are decoded with; disconnect() never hands asyncio.wait an empty or filtered collection; session queue unbounded; id counter arithmetic (C17) under this property. '
           'Also: driver environ mapping; origin-set and upgrade-protocol rules under this property; the GET result is classified.',
    'C16': '_get_socket removes and refuses closed entries; send_packet is a silent no-op for dead '
           'ids and enqueues only on the addressed session; get/save_session, transport, session() '
           'reach the table through _get_socket(sid) and propagate KeyError; fresh session dict '
           'and queue per socket, no class-level containers; reaping sites (lookup, after GET, '
           'WebSocket end, sweep, reject, disconnect); sweep visits a copy, checks every live '
           'session, paced by ping_timeout / n. '
           'Also: session queue unbounded; monitor pass not cut short.'
           ' Also (round 5): asyncio poll() turns TimeoutError and CancelledError of the blocking read into QueueEmpty; the ASGI close() is total.',
    'C17': 'generate_id matched against encode(random(n) || counter(k bytes, big-endian)); closed '
           'arithmetic obligations over the extracted constants: CSPRNG source on every call, 8n '
           '>= 96, counter update (c+1) & m with m = 2^(8k)-1 (full period 2^24), concatenation + '
           'injective fixed-length base64 without padding = 20 chars, url-safe replacements, '
           'per-instance counter, every table key comes from generate_id().'
           ' Also (round 5): sequence_number is a plain attribute (no property / descriptor in the server classes); _handle_connect rules under this property.',
    'C18': 'SIBLING: normalised fact sets (guard atoms, effect calls, attribute writes, raises, '
           'returns, definitions of request attributes) of 22 sibling function pairs are diffed '
           'modulo the async normalisation; every remaining difference must be a reviewed entry '
           'of spec/reviewed_differences.json; in addition the oracle rules of C04-C07/C11/C12 '
           'are evaluated on both flavours.',
    'C19': 'Compression block sliced out of handle_request and path-enumerated: body rewrite and '
           'Content-Encoding append are paired, at most once, labelled with the selecting '
           'encoding, under http_compression, len >= threshold (linear form) and a supported '
           'offered encoding; codec registry (_gzip via GzipFile(w), _deflate = zlib.compress); '
           'JSONP body = ___eio[i](json.dumps(payload)); response constructors build fresh header '
           'lists. '
           'Also: the handshake passes the JSONP index to _ok together with the cookie header; the encode/cache table under this property.',
    'C20': 'Endpoint normalised to /x/; engine branch iff path.startswith(endpoint) (WSGI) / '
           'ensure_trailing_slash(path).startswith(endpoint) (ASGI); fallback order static -> app '
           '-> 404 as path guards; lifespan events answered by exactly one complete/failed and '
           'return; static files: the request-derived suffix reaches the filename only after a '
           'recognised ..-segment sanitizer; content type from mapping, extension, default. '
           'Also: the middleware does not rewrite the request mapping; endpoint normalisation decided by constant folding over eight representative spellings (root endpoint included); lifespan callbacks sit under a catch-all. '
           'Also: the request-derived remainder is appended to the mapped root (no path-joining API); the existence test is made per request (no memoised helper).'
           ' Also (round 5): what is appended to the mapped root is the very term tested for \'..\' (no decoding after the test).',
}


def meta(pid, level='other', extra_tb=None):
    return {
        'level': level,
        'explanation': ('Static analysis of the current source of /repo (ast -> class/call model '
                        '-> CFG -> guarded-effect paths -> repository-specific rules; no code of '
                        '/repo is imported or executed, no solver). Decided: ' + _EX[pid] +
                        ' Not decided (stated limits): ' + '; '.join(_ND[pid]) + '.'),
        'trusted_base': COMMON_TB + (extra_tb or []),
        'not_decided': _ND[pid],
        'assumptions': ['no metaclasses, no monkey-patching inside src/; multiple inheritance is '
                        'modelled for exception classes (first matching except clause), other '
                        'classes are resolved along their MRO',
                        'applications do not replace Packet.json with an incompatible module'],
        'exhaustive': True,
    }
