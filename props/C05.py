"""C05 - session events (DESIGN.md 5/C05)."""
from . import sockrules as S
from . import srvrules as R

from .meta import meta
META = meta('C05', level='other', extra_tb=None)


def check(A):
    for fl in S.FLAVOURS:
        S.close_once(A, fl, 'C05')
        S.who_may_rules(A, fl, 'C05', parts=('close', 'events', 'flags'))
        S.receive_table(A, fl, 'C05')
        S.post_request(A, fl, 'C05')
        S.ws_read_loop(A, fl, 'C05', closed_rule='C05.none-after')
        S.get_request_rules(A, fl, 'C05')
        S.ping_timeout_rules(A, fl, 'C05')
        R.trigger_event_rules(A, fl, 'C05')
        R.handle_connect_rules(A, fl, 'C05')
        R.disconnect_rules(A, fl, 'C05')
        R.response_rules(A, fl, 'C05', parts=('errors',))
    # the close of a transport must reach the session: the tornado driver queues the close
    # marker without waiting, into an unbounded queue
    R.driver_queue_rule(A, 'C05')
    # the reason tells the cause: five different documented texts; and in the asyncio flavour
    # a close that is not awaited never happens
    R.reason_constants_rule(A, 'C05')
    for fl in S.FLAVOURS:
        R.awaited_rule(A, fl, 'C05')
    R.asgi_close_total_rule(A, 'C05')
