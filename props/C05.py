"""C05 - session events (DESIGN.md 5/C05)."""
from . import sockrules as S

META = {
    'level': 'other',
    'explanation': 'see DESIGN.md 5/C05',
    'trusted_base': [], 'not_decided': [], 'assumptions': [],
}


def check(A):
    for fl in S.FLAVOURS:
        S.close_once(A, fl, 'C05')
