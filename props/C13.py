"""C13 - origin policy and CORS headers (DESIGN.md 5/C13)."""
from . import srvrules as R
from .sockrules import FLAVOURS

from .meta import meta
META = meta('C13', level='other', extra_tb=None)


def check(A):
    for fl in FLAVOURS:
        R.admission_rules(A, fl, 'C13', parts=('defs', 'origin'))
    R.cors_rules(A, 'C13')
    R.asgi_env_rules(A, 'C13')
    R.config_rules(A, 'C13', which=('cors',))
    R.driver_environ_rule(A, 'C13')
    R.constructor_rules(A, 'C13', fresh_rule='C13')
    for fl in FLAVOURS:
        R.cors_per_response_rule(A, fl, 'C13')
