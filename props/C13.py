"""C13 - origin policy and CORS headers (DESIGN.md 5/C13)."""
from . import srvrules as R
from .sockrules import FLAVOURS

META = {'level': 'other', 'explanation': 'see DESIGN.md 5/C13', 'trusted_base': [],
        'not_decided': [], 'assumptions': []}


def check(A):
    for fl in FLAVOURS:
        R.admission_rules(A, fl, 'C13', parts=('defs', 'origin'))
    R.cors_rules(A, 'C13')
