"""C09 - client protocol conduct (DESIGN.md 5/C09)."""
from . import clirules as C

from .meta import meta
META = meta('C09', level='other', extra_tb=None)


def check(A):
    for cf in C.CFLAVOURS:
        C.receive_packet_table(A, cf, 'C09')
        C.write_loop_rules(A, cf, 'C09')
        C.connect_websocket_rules(A, cf, 'C09', probe_rule='C09')
        C.read_loop_rules(A, cf, 'C09', timeout_rule='C09')
        C.send_packet_rule(A, cf, 'C09')
        C.connect_rules(A, cf, 'C09')
        C.send_request_rule(A, cf, 'C09')
    C.url_rule(A, 'C09')
