"""C09 - client protocol conduct (DESIGN.md 5/C09)."""
from . import clirules as C

from .meta import meta
META = meta('C09', level='other', extra_tb=None)


def check(A):
    for cf in C.CFLAVOURS:
        C.receive_packet_table(A, cf, 'C09')
        C.write_loop_rules(A, cf, 'C09')
        C.connect_websocket_rules(A, cf, 'C09', probe_rule='C09')
        C.read_loop_rules(A, cf, 'C09', timeout_rule='C09')
        C.send_packet_rule(A, cf, 'C09')
        C.connect_rules(A, cf, 'C09')
        C.send_request_rule(A, cf, 'C09')
        C.reset_rules(A, cf, 'C09')
        C.status_gate_rule(A, cf, 'C09')
        C.request_result_rule(A, cf, 'C09')
        C.loop_condition_rule(A, cf, 'C09')
        C.write_loop_sentinel_rule(A, cf, 'C09')
    C.url_rule(A, 'C09')
    for cf in C.CFLAVOURS:
        C.connect_polling_rules(A, cf, 'C09')
    from . import C02
    C02.check(A, only_decode=True, prefix='C09')
    # what the client puts on the wire / echoes in a PONG is Packet.encode's text form for
    # every payload, the falsy ones included (rule shared with C01)
    from . import C01
    import copy
    msg = A.model.const_value(A.model.module('packet'), 'MESSAGE')
    sub = copy.copy(A)
    sub.obligations = []
    C01.encode_cases(A, C01.constructor_cases(sub, msg), prefix='C09')
