"""Rules over Client / AsyncClient, shared by C08, C09, C10."""
import ast
import re

from sa.absval import AbsEval, Const, Kind
from sa.expr import txt, match, atom, unawait, linear, int_ordering
from sa.model import AnalysisError
from sa.cfg import canon_while
from .common import assume_from, has_guard, or_default
from .seq import PV, guards_matching, own_nodes, definite_index_error
from .sockrules import pconsts, packet_ctor, evaluator

CFLAVOURS = [
    {'name': 'threaded', 'cls': 'client.Client', 'mod': 'client'},
    {'name': 'asyncio', 'cls': 'async_client.AsyncClient', 'mod': 'async_client'},
]
KW = ('self.state', 'connected_clients', '_trigger_event', 'self.sid', 'self.upgrades',
      'ping_interval', 'ping_timeout', 'current_transport', 'ws.send', 'ws.recv', 'send_str',
      'send_bytes', 'send_binary', '.receive(', 'create_connection', 'ws_connect',
      'start_background_task', '_reset', 'self.queue', 'loop_task', 'Packet(', '_receive_packet',
      'self.ws', 'settimeout', '_send_request', 'base_url', 'self.transports')


def opaque(st, f):
    s = ast.unparse(st)
    return not any(k in s for k in KW)


def cpaths(A, cf, fname, **kw):
    fi = A.func(cf['cls'] + '.' + fname)
    cls = A.model.cls(cf['cls'])
    kw.setdefault('opaque', opaque)
    kw.setdefault('refine_raises', False)
    kw.setdefault('max_paths', 100000)
    en = A.enum(**kw)
    return fi, [p for p in A.paths(en, fi, cls) if p.outcome != 'cut']


def connect_rules(A, cf, rule):
    name = cf['name']
    fi, ps = cpaths(A, cf, 'connect')
    n = 0
    for p in ps:
        v = PV(p)
        go = [i for i, e in enumerate(v.ev) if e.kind == 'call' and
              txt(e.expr).startswith("getattr(self, '_connect_' + ")]
        if not go:
            if ("self.state == 'disconnected'", False) in v.guard_atoms():
                A.check(p.outcome == 'raise' and p.cls == 'ValueError' and not v.writes(),
                        rule + '.already-connected', '%s connect() on a client that is not '
                        'disconnected is refused without touching its state' % name, A.site(fi),
                        key='%s-connect-busy' % name, detail=v.describe())
            continue
        n += 1
        A.check(not v.writes('self.state'), rule + '.state-owner', '%s connect() leaves the '
                'state to the transport-specific connect (which sets it only on success)' % name,
                A.site(fi), key='%s-connect-writes-state' % name, detail=v.describe(),
                behaviour='a failed connect() leaves the client in an intermediate state: '
                          'connect() cannot be retried')
        w = [i for i, val in v.writes('self.queue') if val == 'self.create_queue()']
        A.check(bool(w) and w[0] < go[0] and
                ("self.state == 'disconnected'", True) in v.guard_atoms(),
                rule + '.fresh-queue', '%s connect() starts every connection with a fresh send '
                'queue' % name, A.site(fi), key='%s-connect-fresh-queue' % name,
                detail=v.describe(),
                behaviour='a stale None sentinel left by the previous connection ends the new '
                          "write loop at once: the client looks connected but nothing it sends "
                          'is transmitted')
    A.floor(rule, '%s connect() proceeding paths' % name, n, 2)


def _adopts(v, upto, src):
    """the OPEN fields are adopted from packet expression text src before index upto"""
    want = {'self.sid': "%s.data['sid']" % src,
            'self.upgrades': "%s.data['upgrades']" % src,
            'self.ping_interval': "int(%s.data['pingInterval']) / 1000.0" % src,
            'self.ping_timeout': "int(%s.data['pingTimeout']) / 1000.0" % src}
    bad = []
    for tgt, val in want.items():
        w = [x for i, x in v.writes(tgt) if i < upto]
        if not w or w[-1] != val:
            bad.append('%s = %s (want %s)' % (tgt, w[-1] if w else None, val))
    return bad


def connect_polling_rules(A, cf, rule):
    name = cf['name']
    fi, ps = cpaths(A, cf, '_connect_polling', keep={'r', 'p', 'open_packet'})
    n_ok = n_fail = 0
    for p in ps:
        v = PV(p)
        st = [i for i, val in v.writes('self.state') if val == "'connected'"]
        app = [i for i, _ in v.calls('base_client.connected_clients.append(self)')]
        if p.outcome == 'raise' and p.cls == 'ConnectionError':
            if not (v.ev and v.ev[-1].kind == 'raise' and v.ev[-1].depth == 0):
                continue    # summary-based exception of a callee, not a refusal decided here
            n_fail += 1
            resets = [i for i, _ in v.calls('self._reset()')]
            dirty = [i for i in st + app if not any(r > i for r in resets)]
            A.check(not dirty, rule + '.failure-clean', '%s: a refused / failed polling connect '
                    'raises ConnectionError with the client still disconnected and unregistered'
                    % name, A.site(fi), key='%s-connect-polling-failure' % name,
                    detail=v.describe(50),
                    behaviour='after a failed connect() the client believes it is connected: '
                              'connect() cannot be retried')
            continue
        if not st:
            continue
        n_ok += 1
        si = st[0]
        g_open = guards_matching(v, 'open_packet.packet_type == packet.OPEN', True)
        A.check(bool(g_open) and g_open[0][0] < si, rule + '.open-required',
                '%s: the session is established only on an OPEN packet' % name, A.site(fi),
                key='%s-connect-polling-open' % name, detail=v.describe(50),
                behaviour='any first packet is taken for OPEN')
        bad = _adopts(v, si, 'open_packet')
        ct = [x for i, x in v.writes('self.current_transport') if i < si]
        A.check(not bad and ct and ct[-1] == "'polling'", rule + '.adopt',
                '%s: sid, upgrades and heartbeat timing announced by the server are adopted '
                '(ms -> s) before the client is connected' % name, A.site(fi),
                key='%s-connect-polling-adopt' % name, detail=bad + v.describe(50),
                behaviour='the client uses other timing / another sid than the server announced')
        trig = v.calls("self._trigger_event('connect', run_async=False, _strict=True)")
        A.check(len(trig) == 1 and len(app) == 1 and si < app[0] < trig[0][0],
                rule + '.connect-once', '%s: the connect handler fires exactly once, after the '
                'client is connected and registered' % name, A.site(fi),
                key='%s-connect-polling-event' % name, detail=v.describe(50))
        loops = v.calls('self.start_background_task(self._write_loop)') + \
            v.calls('self.start_background_task(self._read_loop_polling)')
        upg = v.calls('self._connect_websocket(url, headers, engineio_path)')
        rest = [i for i in v.kinds('iter') if txt(v.ev[i].expr) == 'p.packets[1:]']
        A.check(bool(rest) and (not upg or rest[0] < upg[0][0]) and rest[0] > si,
                rule + '.handshake-packets', '%s: packets that arrive together with OPEN are '
                'dispatched after the connect event and before an upgrade is attempted' % name,
                A.site(fi), key='%s-connect-polling-rest' % name, detail=v.describe(60),
                behaviour='messages the server sends from its connect handler are lost when the '
                          'upgrade succeeds')
        for i in rest:
            if v.ev[i].pol:
                rc = [j for j, c in v.calls('self._receive_packet(_x)') if j > i and
                      txt(c['x']).startswith('_elem(p.packets[1:], ')]
                A.check(bool(rc), rule + '.handshake-packets', '%s: every such packet goes to '
                        '_receive_packet' % name, A.site(fi), key='%s-connect-polling-rest-recv'
                        % name, detail=v.describe(60))
        if p.outcome == 'return':
            if upg and (txt(v.ev[upg[0][0]].expr), True) in v.guard_atoms():
                A.check(not loops, rule + '.loops', '%s: after a successful upgrade the polling '
                        'loops are not started' % name, A.site(fi),
                        key='%s-connect-polling-double-loops' % name, detail=v.describe(60))
            else:
                A.check(len(loops) == 2, rule + '.loops', '%s: a polling connection starts its '
                        'write loop and its polling read loop' % name, A.site(fi),
                        key='%s-connect-polling-loops' % name, detail=v.describe(60),
                        behaviour='nothing is ever read or written on the connection')
            if upg:
                ga = v.guard_atoms()
                A.check(("'websocket' in self.upgrades", True) in ga and
                        ("'websocket' in self.transports", True) in ga, rule + '.upgrade-offer',
                        '%s: an upgrade is attempted only if the server offered it and the '
                        'application allows websocket' % name, A.site(fi),
                        key='%s-connect-polling-upgrade-guard' % name, detail=v.describe(60))
    A.floor(rule, '%s _connect_polling success paths' % name, n_ok, 2)
    A.floor(rule, '%s _connect_polling failure paths' % name, n_fail, 3)


def connect_websocket_rules(A, cf, rule, probe_rule=None):
    P = pconsts(A)
    name = cf['name']
    fi, ps = cpaths(A, cf, '_connect_websocket', keep={'ws', 'p', 'pkt', 'open_packet'})
    n_up = n_direct = n_fail = 0
    send_pat = ['ws.send(_x)', 'ws.send_str(_x)']
    for p in ps:
        v = PV(p)
        ga = set(v.guard_atoms())
        upgrade = ('self.sid', True) in ga
        st = [i for i, val in v.writes('self.state') if val == "'connected'"]
        loops = v.calls('self.start_background_task(self._write_loop)') + \
            v.calls('self.start_background_task(self._read_loop_websocket)')
        ct = [i for i, val in v.writes('self.current_transport') if val == "'websocket'"]
        if upgrade:
            if ct:
                n_up += 1
                sends = [(i, c) for pat in send_pat for i, c in v.calls(pat)]
                sends.sort()
                recv = v.calls('ws.recv()') + v.calls('ws.receive()')
                g1 = guards_matching(v, 'pkt.packet_type == packet.PONG', True)
                g2 = guards_matching(v, "pkt.data == 'probe'", True)
                ok = len(sends) == 2 and len(recv) == 1 and g1 and g2
                if ok:
                    # the bound p values: first send is PING 'probe', second is UPGRADE
                    binds = [(i, e.expr) for i, e in enumerate(v.ev) if e.kind == 'bind' and
                             txt(e.target) == 'p']
                    encs = [b for b in binds if txt(b[1]).endswith('.encode()')]
                    ok = len(encs) == 2
                    if ok:
                        a = packet_ctor(A, fi, unawait(encs[0][1]).func.value)
                        b = packet_ctor(A, fi, unawait(encs[1][1]).func.value)
                        ok = a is not None and a[0] == P['PING'] and a[1] is not None and \
                            match("'probe'", a[1]) is not None and b is not None and \
                            b[0] == P['UPGRADE'] and b[1] is None
                        ok = ok and encs[0][0] < sends[0][0] < recv[0][0] < g1[0][0] and \
                            recv[0][0] < g2[0][0] and g1[0][0] < sends[1][0] < ct[0] and \
                            g2[0][0] < sends[1][0] and encs[1][0] < sends[1][0]
                A.check(bool(ok), (probe_rule or rule) + '.probe',
                        "%s: the client switches to websocket only after PING 'probe' -> PONG "
                        "'probe' -> UPGRADE, in that order" % name, A.site(fi),
                        key='%s-client-probe' % name, detail=v.describe(70),
                        behaviour='the client upgrades without (or with a wrong) probe exchange')
                A.check(len(loops) == 2 and p.outcome == 'return' and txt(p.value) == 'True' and
                        not st, rule + '.upgrade-done', '%s: a completed upgrade starts the '
                        'websocket loops and reports success; the connect event is not fired '
                        'again' % name, A.site(fi), key='%s-client-upgrade-done' % name,
                        detail=v.describe(70))
            else:
                if p.outcome == 'return':
                    n_fail += 1
                    A.check(txt(p.value) == 'False' and not loops and not st and
                            not v.writes('self.ws') and not v.writes('self.current_transport'),
                            rule + '.upgrade-failed',
                            '%s: a failed upgrade returns False and leaves the polling '
                            'connection untouched' % name, A.site(fi),
                            key='%s-client-upgrade-failed' % name, detail=v.describe(70),
                            behaviour='a failed probe still switches transports / loses queued '
                                      'packets')
            continue
        # direct websocket connection
        if p.outcome == 'raise' and p.cls == 'ConnectionError':
            A.check(not st and not v.calls('base_client.connected_clients.append(self)'),
                    rule + '.failure-clean', '%s: a failed websocket connect raises '
                    'ConnectionError with the client still disconnected' % name, A.site(fi),
                    key='%s-connect-ws-failure' % name, detail=v.describe(60))
            continue
        if st:
            n_direct += 1
            bad = _adopts(v, st[0], 'open_packet')
            g_open = guards_matching(v, 'open_packet.packet_type == packet.OPEN', True)
            trig = v.calls("self._trigger_event('connect', run_async=False, _strict=True)")
            A.check(not bad and g_open and ct and len(trig) == 1 and len(loops) == 2,
                    rule + '.adopt', '%s: a direct websocket connect requires OPEN, adopts the '
                    'announced values, fires connect once and starts both loops' % name,
                    A.site(fi), key='%s-connect-ws-adopt' % name, detail=bad + v.describe(70))
    A.floor(rule, '%s client upgrade success paths' % name, n_up, 1)
    A.floor(rule, '%s client upgrade failure paths' % name, n_fail, 3)
    A.floor(rule, '%s client direct websocket paths' % name, n_direct, 1)


def disconnect_rules(A, cf, rule):
    P = pconsts(A)
    name = cf['name']
    fi, ps = cpaths(A, cf, 'disconnect')
    n = 0
    for p in ps:
        if any(e.kind == 'exc' for e in p.events):
            continue
        v = PV(p)
        ga = set(v.guard_atoms())
        resets = v.calls('self._reset()')
        A.check(p.outcome != 'return' or len(resets) == 1, rule + '.clean-end',
                '%s disconnect() always ends in _reset() (state disconnected, sid cleared)'
                % name, A.site(fi), key='%s-disconnect-reset' % name, detail=v.describe())
        trig = v.calls("self._trigger_event('disconnect', ___)")
        if ("self.state == 'connected'", True) not in ga:
            A.check(not trig and not v.calls('self.queue.put(___)') and
                    not v.calls('self._send_packet(___)'), rule + '.noop',
                    '%s disconnect() on a client that is not connected fires nothing and sends '
                    'nothing' % name, A.site(fi), key='%s-disconnect-noop' % name,
                    detail=v.describe())
            continue
        n += 1
        sw = [i for i, val in v.writes('self.state') if val != "'connected'"]
        ok = len(trig) == 1 and sw and sw[0] < trig[0][0]
        A.check(ok, rule + '.once', '%s disconnect(): exactly one disconnect event, fired after '
                'the state has left "connected"' % name, A.site(fi),
                key='%s-disconnect-once' % name, detail=v.describe(),
                behaviour='a disconnect() issued from the handler (or concurrently) fires a '
                          'second disconnect event')
        if len(trig) == 1:
            c = unawait(v.ev[trig[0][0]].expr)
            A.check(len(c.args) == 2 and
                    or_default(p, txt(c.args[1]), 'reason', 'self.reason.CLIENT_DISCONNECT')
                    and any(k.arg == 'run_async' and match('False', k.value) is not None
                            for k in c.keywords), rule + '.reason',
                    '%s disconnect() reports the given reason, by default client disconnect'
                    % name, A.site(fi), key='%s-disconnect-reason' % name, detail=txt(c))
        sends = v.calls('self._send_packet(_p)')
        okc = len(sends) == 1
        if okc:
            pc = packet_ctor(A, fi, sends[0][1]['p'])
            okc = pc is not None and pc[0] == P['CLOSE']
        puts = v.calls('self.queue.put(None)')
        A.check(okc and len(puts) == 1 and sends[0][0] < puts[0][0] and
                (not sw or puts[0][0] < sw[0] or True), rule + '.close-packet',
                '%s disconnect() queues a CLOSE packet, then the sentinel that stops the write '
                'loop' % name, A.site(fi), key='%s-disconnect-close-packet' % name,
                detail=v.describe())
        rm = v.calls('base_client.connected_clients.remove(self)')
        A.check(len(rm) == 1, rule + '.clean-end', '%s disconnect() unregisters the client'
                % name, A.site(fi), key='%s-disconnect-unregister' % name, detail=v.describe())
        joins = v.calls('self.read_loop_task.join()')
        if cf['name'] == 'threaded':
            A.check(bool(joins) == (('abort', False) in ga), rule + '.wait', 'threaded '
                    'disconnect() waits for the read loop unless abort', A.site(fi),
                    key='threaded-disconnect-join', detail=v.describe())
    A.floor(rule, '%s disconnect() connected paths' % name, n, 2)


def read_loop_rules(A, cf, rule, timeout_rule=None):
    name = cf['name']
    for loop in ('_read_loop_polling', '_read_loop_websocket'):
        fi, ps = cpaths(A, cf, loop, keep={'r', 'p', 'pkt'}, loop_bound=1)
        n_ep = 0
        for p in ps:
            v = PV(p)
            if any(e.kind == 'exc' and e.cls is not None for e in v.ev):
                continue
            trig = v.calls("self._trigger_event('disconnect', ___)")
            # loops release each other: every break caused by a failure is preceded by put(None)
            # epilogue
            for ti, _ in trig:
                n_ep += 1
                g = [i for i in v.guards("self.state == 'connected'", True) if i < ti]
                sw = [i for i, val in v.writes('self.state') if val != "'connected'" and i < ti]
                last_g = g[-1] if g else -1
                A.check(bool(g) and bool([s for s in sw if s > last_g]), rule + '.once',
                        '%s %s: the transport-error disconnect event fires only if the client is '
                        'still connected, and after the state has left "connected"'
                        % (name, loop), A.site(fi, v.node(ti)),
                        key='%s-%s-epilogue-once' % (name, loop), detail=v.describe(60),
                        behaviour='a handler that calls disconnect() (or a concurrent '
                                  'disconnect()) produces a second disconnect event')
                c = unawait(v.ev[ti].expr)
                A.check(len(c.args) == 2 and txt(c.args[1]) == 'self.reason.TRANSPORT_ERROR' and
                        any(k.arg == 'run_async' and match('False', k.value) is not None
                            for k in c.keywords), rule + '.reason',
                        '%s %s: a lost transport is reported as transport error' % (name, loop),
                        A.site(fi, v.node(ti)), key='%s-%s-epilogue-reason' % (name, loop),
                        detail=txt(c))
                after = [x for i, x in v.effects(0) if i > ti]
                A.check(any(x.startswith('base_client.connected_clients.remove(self)')
                            for x in after) and any(x.startswith('self._reset()') for x in after),
                        rule + '.clean-end', '%s %s: after the event the client is unregistered '
                        'and reset' % (name, loop), A.site(fi),
                        key='%s-%s-epilogue-reset' % (name, loop), detail=v.describe(60),
                        behaviour='the client stays "connected" with a dead transport: connect() '
                                  'cannot be called again')
                jw = [i for i, x in v.effects(0) if i < ti and
                      (x.startswith('self.write_loop_task.join()') or x == 'self.write_loop_task')]
                if cf['name'] == 'threaded' and \
                        ('self.write_loop_task', False) not in set(v.guard_atoms()):
                    A.check(bool(jw), rule + '.join-writer', '%s %s: the write loop is joined '
                            'before the event' % (name, loop), A.site(fi),
                            key='%s-%s-epilogue-join' % (name, loop), detail=v.describe(60))
            if p.outcome == 'return' and not trig and \
                    ("self.state == 'connected'", True) in v.guard_atoms():
                # left the loop while connected without firing: must not happen after the
                # final state test
                gs = v.guards("self.state == 'connected'", True)
                loop_exit = [i for i, e in enumerate(v.ev) if e.kind == 'guard' and i > gs[-1]]
        A.floor(rule, '%s %s epilogues' % (name, loop), n_ep, 2)
        # receive timeouts
        if timeout_rule:
            for p in ps:
                v = PV(p)
                for i, c in v.calls("self._send_request('GET', ___)"):
                    call = unawait(v.ev[i].expr)
                    kw = {k.arg: k.value for k in call.keywords}
                    t = txt(kw.get('timeout'))
                    A.check(t == 'max(self.ping_interval, self.ping_timeout) + 5',
                            timeout_rule + '.silence', '%s: a polling GET waits at most '
                            'max(ping_interval, ping_timeout) + 5 s' % name,
                            A.site(fi, v.node(i)), key='%s-poll-get-timeout' % name, detail=t,
                            behaviour='a silent server is never (or too late) detected')
                for i, c in v.calls('asyncio.wait_for(self.ws.receive(), ___)'):
                    call = unawait(v.ev[i].expr)
                    kw = {k.arg: k.value for k in call.keywords}
                    tm = kw.get('timeout') or (call.args[1] if len(call.args) > 1 else None)
                    lf = linear(tm) if tm is not None else None
                    A.check(lf == ({'self.ping_interval': 1, 'self.ping_timeout': 1}, 0),
                            timeout_rule + '.silence', '%s: a websocket read waits at most '
                            'ping_interval + ping_timeout' % name, A.site(fi, v.node(i)),
                            key='%s-ws-read-timeout' % name, detail=txt(tm),
                            behaviour='silence is detected later than ping_interval + '
                                      'ping_timeout (or a live server is dropped)')
    if timeout_rule and cf['name'] == 'threaded':
        fi, ps = cpaths(A, cf, '_connect_websocket', keep={'ws', 'p', 'pkt', 'open_packet'})
        n = 0
        for p in ps:
            v = PV(p)
            if p.outcome == 'return' and txt(p.value) == 'True':
                n += 1
                st = v.calls('ws.settimeout(_t)')
                A.check(len(st) == 1 and linear(st[0][1]['t']) ==
                        ({'self.ping_interval': 1, 'self.ping_timeout': 1}, 0),
                        timeout_rule + '.silence', 'threaded: the websocket read timeout is '
                        'ping_interval + ping_timeout', A.site(fi),
                        key='threaded-ws-read-timeout', detail=v.describe(70),
                        behaviour='silence is never detected on the websocket')
        A.floor(timeout_rule, 'threaded websocket connects', n, 2)


def break_release_rule(A, cf, rule):
    """Whenever a read loop is left through a ``break`` (a failure: request refused, bad
    status, bad body, socket closed or timed out) the write loop is released with
    queue.put(None) - before the break or right after the loop - before the epilogue waits
    for it."""
    name = cf['name']
    for loop in ('_read_loop_polling', '_read_loop_websocket'):
        fi, ps = cpaths(A, cf, loop, loop_bound=1)
        whiles = [canon_while(n) for n in own_nodes(fi) if isinstance(n, ast.While)]
        if not whiles:
            raise AnalysisError('%s: read loop of %s not found' % (rule, fi.qualname))
        outer = min(whiles, key=lambda w: w.lineno)
        lo, hi = outer.lineno, getattr(outer, 'end_lineno', None) or max(
            getattr(x, 'lineno', outer.lineno) for x in ast.walk(outer))
        inner = [(w.lineno, getattr(w, 'end_lineno', w.lineno)) for st in outer.body
                 for w in ast.walk(st) if isinstance(w, (ast.While, ast.For, ast.AsyncFor))]
        n_b = 0
        seen = set()
        for p in ps:
            v = PV(p)
            for i, e in enumerate(v.ev):
                if e.kind != 'brk' or e.depth != 0 or e.node.lineno is None:
                    continue
                ln = e.node.lineno
                if not (lo <= ln <= hi) or any(a_ <= ln <= b_ for a_, b_ in inner):
                    continue        # a break of an inner loop
                # this iteration: from the last evaluation of anything at the loop's first
                # body line back to the break; afterwards: up to the waiting epilogue
                start = max([j for j in range(i) if v.ev[j].kind == 'brk'] + [-1]) + 1
                puts_before = [j for j in range(start, i) if v.ev[j].kind == 'call' and
                               v.ev[j].depth == 0 and
                               re.search(r'self\.queue\.put(_nowait)?\(None\)', txt(v.ev[j].expr))]
                wait_at = next((j for j in range(i + 1, len(v.ev)) if v.ev[j].kind == 'call' and
                                v.ev[j].depth == 0 and re.search(
                                    r'write_loop_task(\.join\(|\))|_trigger_event\(', txt(v.ev[j].expr))),
                               len(v.ev))
                puts_after = [j for j in range(i + 1, wait_at) if v.ev[j].kind == 'call' and
                              v.ev[j].depth == 0 and
                              re.search(r'self\.queue\.put(_nowait)?\(None\)', txt(v.ev[j].expr))]
                key = (ln, bool(puts_before or puts_after))
                if key not in seen:
                    seen.add(key)
                    n_b += 1
                A.check(bool(puts_before or puts_after), rule + '.release',
                        '%s %s: leaving the read loop on a failure releases the write loop '
                        '(queue.put(None)) before the epilogue waits for it' % (name, loop),
                        A.site(fi, e.node), key='%s-%s-break-release' % (name, loop),
                        detail=v.describe(60),
                        behaviour='the write loop keeps waiting: wait() never returns')
        A.floor(rule, '%s %s breaks' % (name, loop), n_b, 3)


def _blocks(node):
    out = []
    for f in ('body', 'orelse', 'finalbody'):
        b = getattr(node, f, None)
        if isinstance(b, list) and b and isinstance(b[0], ast.stmt):
            out.append(b)
            for st in b:
                out.extend(_blocks(st))
    for h in getattr(node, 'handlers', []) or []:
        out.append(h.body)
        for st in h.body:
            out.extend(_blocks(st))
    return out


def receive_packet_table(A, cf, rule):
    P = pconsts(A)
    name = cf['name']
    fi = A.func(cf['cls'] + '._receive_packet')
    cls = A.model.cls(cf['cls'])
    for t in range(10):
        A.counters['cases'] += 1
        asm = {'pkt.packet_type': Const(t)}
        ps = [p for p in A.paths(A.enum(assume=assume_from(asm), refine_raises=False), fi, cls)
              if p.outcome != 'cut' and not any(e.kind == 'exc' for e in p.events)]
        tn = next((n for n, v_ in P.items() if v_ == t), 'type %d' % t)
        ev = evaluator(A, fi, asm)
        for p in ps:
            v = PV(p)
            for e in v.ev:
                if e.kind in ('call', 'guard', 'write') and e.expr is not None:
                    bad = definite_index_error(e.expr, ev)
                    if bad is not None:
                        A.violated(rule + '.total', '%s _receive_packet(%s): every statement is '
                                   'total on wire types 0..9' % (name, tn), A.site(fi, e.node),
                                   key='%s-client-receive-index' % name,
                                   detail='%s raises IndexError for packet type %d' % (txt(bad), t),
                                   behaviour='a packet of type %d kills the read loop: later '
                                             'messages are lost, PINGs go unanswered' % t)
                        break
            eff = [x for i, x in v.effects(0)]
            what = '%s _receive_packet(%s) has exactly the prescribed effect' % (name, tn)
            if tn == 'MESSAGE':
                ok = len(eff) == 1 and bool(v.calls(
                    "self._trigger_event('message', pkt.data, run_async=True, _strict=True)"))
            elif tn == 'PING':
                s = v.calls('self._send_packet(_p)')
                ok = len(s) == 1
                if ok:
                    pc = packet_ctor(A, fi, s[0][1]['p'], asm)
                    ok = pc is not None and pc[0] == P['PONG'] and pc[1] is not None and \
                        txt(pc[1]) == 'pkt.data'
                ok = ok and len([x for x in eff if not x.startswith('packet.Packet(')]) == 1
            elif tn == 'CLOSE':
                ok = len(eff) == 1 and bool(v.calls(
                    'self.disconnect(abort=True, reason=self.reason.SERVER_DISCONNECT, '
                    '_strict=True)'))
            else:
                ok = not eff and p.outcome == 'return'
            A.check(ok, rule + '.dispatch', what, A.site(fi),
                    key='%s-client-receive-%s' % (name, tn if tn in ('MESSAGE', 'PING', 'CLOSE',
                                                                    'NOOP') else 'other'),
                    detail=['effects: %r' % eff] + v.describe(),
                    behaviour={'MESSAGE': 'a server message is not delivered exactly once with '
                                          'its payload',
                               'PING': 'a PING is not answered with a PONG carrying the same data',
                               'CLOSE': 'a server CLOSE is not reported as server disconnect'
                               }.get(tn, 'an unexpected packet type has an effect / raises'))


def send_packet_rule(A, cf, rule):
    name = cf['name']
    fi, ps = cpaths(A, cf, '_send_packet')
    n = 0
    for p in ps:
        v = PV(p)
        puts = v.calls('self.queue.put(_x)')
        if ("self.state == 'connected'", True) in v.guard_atoms():
            n += 1
            A.check(len(puts) == 1 and txt(puts[0][1]['x']) == 'pkt', rule + '.enqueue',
                    '%s _send_packet queues the packet once while connected' % name, A.site(fi),
                    key='%s-client-send-put' % name, detail=v.describe())
        else:
            A.check(not puts and p.outcome == 'return', rule + '.noop',
                    '%s send() on a client that is not connected is a no-op' % name, A.site(fi),
                    key='%s-client-send-noop' % name, detail=v.describe(),
                    behaviour='send() on a disconnected client raises / queues into a dead '
                              'queue')
    A.require(rule + '.noop', '%s _send_packet tests the connection state before queuing' % name,
              n, 1, A.site(fi), key='%s-client-send-unguarded' % name,
              behaviour='send() on a client that is not connected queues into a dead queue')
    fi, ps = cpaths(A, cf, 'send')
    P = pconsts(A)
    for p in ps:
        if p.outcome != 'return':
            continue
        v = PV(p)
        s = v.calls('self._send_packet(_p)')
        ok = len(s) == 1
        if ok:
            pc = packet_ctor(A, fi, s[0][1]['p'])
            ok = pc is not None and pc[0] == P['MESSAGE'] and pc[1] is not None and \
                txt(pc[1]) == 'data'
        A.check(ok, rule + '.send', '%s send(data) queues one MESSAGE packet with the data' % name,
                A.site(fi), key='%s-client-send' % name, detail=v.describe())


def write_loop_rules(A, cf, rule, bound_rule=None):
    name = cf['name']
    fi, ps = cpaths(A, cf, '_write_loop', keep={'r', 'p', 'packets'}, loop_bound=1)
    sym = {'len(packets)': ('N', 0), 'payload.Payload.max_decode_packets': ('M', 0)}
    n_post = n_ws = 0
    # batch bound: structural (the drain loop condition)
    bound_ok = None
    for w in [n for n in own_nodes(fi) if isinstance(n, ast.While)]:
        s = ast.unparse(w)
        if ('get(block=False)' in s or 'get_nowait()' in s) and 'append' in s and \
                not any(isinstance(x, ast.While) and x is not w for x in ast.walk(w)):
            test = w.test
            if isinstance(test, ast.Constant) and test.value is True:
                bound_ok = (False, 'while True (the whole queue goes into one batch)', w)
            else:
                f = int_ordering(test, True, {
                    'len(packets)': ('N', 0), 'payload.Payload.max_decode_packets': ('M', 0),
                    'Payload.max_decode_packets': ('M', 0)})
                bound_ok = (f == ({'N': -1, 'M': 1}, -1), '%s -> %s' % (ast.unparse(test), f), w)
    if bound_ok is None:
        raise AnalysisError('%s: drain loop of %s not found' % (rule, fi.qualname))
    A.check(bound_ok[0], (bound_rule or rule) + '.batch-bound',
            "%s: one POST never carries more packets than a server accepts per body (the drain "
            'loop continues only while len(packets) < Payload.max_decode_packets)' % name,
            A.site(fi, bound_ok[2]), key='%s-client-batch-bound' % name, detail=bound_ok[1],
            behaviour='a burst of more than max_decode_packets sends is put into one body, which '
                      "this package's own servers refuse as a whole: every message in it is lost")
    for p in ps:
        v = PV(p)
        ga = set(v.guard_atoms())
        for i, c in v.calls("self._send_request('POST', ___)"):
            n_post += 1
            call = unawait(v.ev[i].expr)
            kw = {k.arg: k.value for k in call.keywords}
            A.check(txt(kw.get('body')) == 'p.encode()' and any(
                e.kind == 'bind' and txt(e.target) == 'p' and
                txt(e.expr) == 'payload.Payload(packets=packets)' for e in v.ev[:i]),
                rule + '.polling-body', '%s: on polling the batch goes out as one payload (text '
                'channel encoding, base64 for binary)' % name, A.site(fi, v.node(i)),
                key='%s-client-post-body' % name, detail=txt(call))
        sends = [(i, c, b) for pat, b in (('self.ws.send_binary(_x)', True), ('self.ws.send(_x)', False),
                                          ('self.ws.send_bytes(_x)', True),
                                          ('self.ws.send_str(_x)', False))
                 for i, c in v.calls(pat)]
        for i, c, binary in sends:
            n_ws += 1
            x = txt(c['x'])
            elem = x[:-len('.encode()')] if x.endswith('.encode()') else None
            A.check(elem is not None and elem.startswith('_elem(packets, '),
                    rule + '.ws-frame', '%s: each websocket frame is one packet of the batch, '
                    'encoded for the binary-capable channel' % name, A.site(fi, v.node(i)),
                    key='%s-client-ws-frame' % name, detail=x,
                    behaviour='binary data is sent base64-encoded on the websocket')
            if elem:
                A.check(((elem + '.binary', binary) in ga), rule + '.ws-frame',
                        '%s: a binary frame is used exactly for binary packets' % name,
                        A.site(fi, v.node(i)), key='%s-client-ws-binary' % name,
                        detail=v.describe(60),
                        behaviour='binary packets go out as text frames or vice versa')
        for i, c in v.calls('_l.insert(___)'):
            A.violated(rule + '.order', '%s: packets are batched in dequeue order' % name,
                       A.site(fi, v.node(i)), key='%s-client-batch-insert' % name)
        for i, c in v.calls('self.queue.put(_x)'):
            A.violated(rule + '.no-requeue', '%s: the write loop never re-queues a packet' % name,
                       A.site(fi, v.node(i)), key='%s-client-requeue' % name)
    A.floor(rule, '%s write loop POST sites' % name, n_post, 2)
    A.floor(rule, '%s write loop websocket sends' % name, n_ws, 2)


def _sep_ok(p, sep):
    """'&' exactly when the caller's URL has a query string of its own."""
    q = 'urllib.parse.urlparse(url).query'
    for pol, want in ((True, "'&'"), (False, "''")):
        if has_guard(p, q, pol) or has_guard(p, q + " == ''", not pol) or \
                has_guard(p, q + " != ''", pol):
            return sep == want
    return False


def url_rule(A, rule):
    fi = A.func('base_client.BaseClient._get_engineio_url')
    cls = fi.cls
    for tr, base in (('polling', 'http'), ('websocket', 'ws')):
        for secure in (True, False):
            A.counters['cases'] += 1
            asm = {'transport': Const(tr),
                   "urllib.parse.urlparse(url).scheme in ['https', 'wss']": Const(secure)}

            def assume(e, asm=asm):
                if isinstance(e, ast.Compare):
                    return asm.get(atom(e, True)[0])    # list / tuple displays agree
                if isinstance(e, (ast.Name, ast.Attribute, ast.Call)):
                    return asm.get(txt(e))
                return None
            ps = [p for p in A.paths(A.enum(assume=assume, follow_handlers=False), fi, cls)
                  if p.outcome == 'return']
            for p in ps:
                c = unawait(p.value)
                ok = isinstance(c, ast.Call) and isinstance(c.func, ast.Attribute) and \
                    c.func.attr == 'format' and isinstance(c.func.value, ast.Constant)
                if ok:
                    tpl = c.func.value.value
                    kw = {k.arg: txt(k.value) for k in c.keywords}
                    want = base + ('s' if secure else '')
                    ev = AbsEval(assume)
                    sch = ev.eval(next(k.value for k in c.keywords if k.arg == 'scheme')) \
                        if 'scheme' in kw else None
                    ok = tpl == '{scheme}://{netloc}/{path}/?{query}{sep}transport={transport}&EIO=4' \
                        and isinstance(sch, Const) and sch.v == want and \
                        kw.get('netloc') == 'urllib.parse.urlparse(url).netloc' and \
                        kw.get('query') == 'urllib.parse.urlparse(url).query' and \
                        kw.get('path') == "engineio_path.strip('/')" and \
                        kw.get('transport') == 'transport' and \
                        _sep_ok(p, kw.get('sep'))
                A.check(bool(ok), rule + '.url', 'the %s URL of a%s endpoint is %s://<netloc>/'
                        '<path>/?<query>[&]transport=%s&EIO=4' % (tr, ' secure' if secure else 'n insecure',
                                                                   base + ('s' if secure else ''), tr),
                        A.site(fi), key='client-url-%s-%s' % (tr, secure), detail=txt(p.value),
                        behaviour='the client asks for another protocol version / endpoint / '
                                  'scheme or drops the caller\'s query string')
            A.floor(rule, 'url paths %s/%s' % (tr, secure), len(ps), 1)


def send_request_rule(A, cf, rule):
    """_send_request turns every failure of the HTTP request - including a timeout - into a
    str result; the read/write loops rely on that to declare the connection lost."""
    fi = A.func(cf['cls'] + '._send_request')
    from sa.cfg import _handler_names
    found = False
    for n in ast.walk(fi.node):
        if isinstance(n, ast.Try):
            for h in n.handlers:
                names = _handler_names(h) or ['*']
                rets = [x for st in h.body for x in ast.walk(st) if isinstance(x, ast.Return)]
                if rets:
                    found = True
                    if cf['name'] == 'asyncio':
                        ok = ('ClientError' in names or '*' in names or 'Exception' in names) and \
                            ('TimeoutError' in names or '*' in names or 'Exception' in names)
                        want = 'aiohttp.ClientError and asyncio.TimeoutError'
                    else:
                        ok = 'RequestException' in names or '*' in names or 'Exception' in names
                        want = 'requests.exceptions.RequestException'
                    A.check(ok, rule + '.request-failures', '%s _send_request catches %s and '
                            'reports them as a str result' % (cf['name'], want), A.site(fi, h),
                            key='%s-send-request-handlers' % cf['name'], detail=names,
                            behaviour='a request that times out raises into the read loop: the '
                                      'task dies, no disconnect event, the client stays '
                                      '"connected" to a silent server')
    if not found:
        raise AnalysisError('%s: no failure handler in %s' % (rule, fi.qualname))


def http_session_rule(A, cf, rule):
    """AsyncClient._send_request: _reset() closes the client's own HTTP session after every
    connection, so a request is sent through a session that is neither missing nor closed: a
    new one is created in both cases."""
    if cf['name'] != 'asyncio':
        return
    fi = A.func(cf['cls'] + '._send_request')
    ps = [p for p in A.paths(A.enum(follow_handlers=False), fi, A.model.cls(cf['cls']))
          if p.outcome != 'cut']
    n = 0
    for p in ps:
        v = PV(p)
        use = [i for i, e in enumerate(v.ev) if e.kind == 'call' and
               txt(e.expr).startswith('getattr(self.http')]
        if not use:
            continue
        n += 1
        ga = {atom(e.expr, e.pol) for e in v.ev[:use[0]] if e.kind == 'guard'}
        created = any(e.kind == 'write' and txt(e.target) == 'self.http' and
                      'ClientSession(' in txt(e.expr) for e in v.ev[:use[0]])
        A.check(created or (('self.http is None', False) in ga and
                            ('self.http.closed', False) in ga), rule + '.http-session',
                'asyncio _send_request: the session used is a fresh one or one that is known to '
                'be open', A.site(fi), key='asyncio-send-request-session', detail=v.describe(),
                behaviour="the second connect() of a client object fails with RuntimeError("
                          "'Session is closed') instead of connecting")
    A.floor(rule, 'asyncio _send_request paths that use the session', n, 1)


def trigger_rules(A, cf, rule):
    """The client's _trigger_event: handler calls are contained; the legacy (no-argument)
    disconnect retry is taken exactly for a disconnect event fired with its one argument."""
    from . import srvrules
    srvrules.trigger_event_rules(A, cf, rule, cls_key='cls')


def reset_rules(A, cf, rule):
    """_reset(): the client is 'disconnected' and has no sid as soon as _reset() is entered,
    unconditionally; and _reset() takes nothing away that connect() still reads after a point
    where a disconnect may already have happened."""
    name = cf['name']
    base = A.func('base_client.BaseClient._reset')
    bcls = A.model.cls('base_client.BaseClient')
    ps = [p for p in A.paths(A.enum(follow_handlers=False), base, bcls) if p.outcome != 'cut']
    A.floor(rule, 'BaseClient._reset paths', len(ps), 1)
    extra = set()
    for p in ps:
        v = PV(p)
        w = {t: val for t, val in ((txt(e.target), txt(e.expr)) for e in v.ev if e.kind == 'write')}
        und = [e for e in v.ev if e.kind == 'guard' and e.cls != 'decided']
        A.check(p.outcome == 'return' and w.get('self.state') == "'disconnected'" and
                w.get('self.sid') == 'None' and not und, rule + '.reset',
                "BaseClient._reset() always leaves state 'disconnected' and sid None",
                A.site(base), key='client-reset-total', detail=v.describe(),
                behaviour='a stale sid survives a disconnect: the next websocket connect is '
                          'taken for an upgrade of a session that no longer exists')
        extra |= {t for t in w if t not in ('self.state', 'self.sid')}
    own = A.model.cls(cf['cls']).methods.get('_reset')
    if own is not None:
        ps2 = [p for p in A.paths(A.enum(follow_handlers=False), own, A.model.cls(cf['cls']))
               if p.outcome != 'cut']
        for p in ps2:
            v = PV(p)
            first = next((e for e in v.ev if e.kind == 'call' and e.depth == 0 and
                          txt(e.expr) != 'super()'), None)
            A.check(first is not None and txt(first.expr) == 'super()._reset()',
                    rule + '.reset', '%s _reset() resets state and sid before anything that can '
                    'wait or fail' % name, A.site(own), key='%s-reset-first' % name,
                    detail=v.describe(),
                    behaviour="the client stays 'disconnecting' with the old sid while (or "
                              'forever if) closing the HTTP session waits or fails: a reconnect '
                              'from the disconnect handler is refused')
            for e in v.ev:
                if e.kind == 'write' and txt(e.target) not in ('self.state', 'self.sid',
                                                               'self.http'):
                    extra.add(txt(e.target))
    # attributes cleared by _reset() must not be read by connect() after the handshake
    # packets / the connect handler ran (either may have disconnected already)
    for fn in ('_connect_polling', '_connect_websocket'):
        fi, cps = cpaths(A, cf, fn)
        for p in cps:
            v = PV(p)
            cut = [i for i, e in enumerate(v.ev) if e.kind == 'call' and e.depth == 0 and (
                txt(e.expr).startswith("self._trigger_event('connect'") or
                txt(e.expr).startswith('self._receive_packet('))]
            if not cut:
                continue
            for e in v.ev[cut[0] + 1:]:
                if e.kind in ('guard', 'call') and e.depth == 0 and e.expr is not None:
                    t = txt(e.expr)
                    hit = [a for a in extra if re.search(re.escape(a) + r'(?![\w])', t)]
                    A.check(not hit, rule + '.reset', '%s %s: nothing that _reset() clears is '
                            'read after the handshake packets / connect handler ran' % (name, fn),
                            A.site(fi, e.node), key='%s-reset-clears-%s' % (name, fn),
                            detail=['_reset() writes %s' % sorted(extra), t],
                            behaviour='a CLOSE in the handshake payload, or a disconnect() '
                                      'from the connect handler, makes connect() fail with '
                                      'TypeError instead of returning')


def decode_guard_rule(A, cf, rule):
    """Turning a response body into text can fail (invalid UTF-8 is a ValueError): it happens
    under the same ValueError handler as the payload decoding."""
    name = cf['name']
    for fn in ('_connect_polling', '_read_loop_polling'):
        fi = A.func(cf['cls'] + '.' + fn)
        cfg = A.enum().cfg(fi)
        n = 0
        for node in cfg.nodes:
            a = node.ast if node.kind in ('stmt', 'return', 'test') else None
            if a is None:
                continue
            for c in ast.walk(a):
                if isinstance(c, ast.Call) and isinstance(c.func, ast.Attribute) and \
                        c.func.attr == 'decode' and (not c.args or (
                            isinstance(c.args[0], ast.Constant) and
                            str(c.args[0].value).lower().replace('_', '-') == 'utf-8')):
                    n += 1
                    ok = False
                    for succ, lab in node.succ:
                        if lab == 'exc' and succ.kind == 'handler':
                            from sa.cfg import _handler_names
                            hn = _handler_names(succ.ast)
                            if hn is None or any(x in ('ValueError', 'Exception', 'BaseException',
                                                       'UnicodeDecodeError', 'UnicodeError')
                                                 for x in hn):
                                ok = True
                    A.check(ok, rule + '.bad-response', '%s %s: decoding the response body to '
                            'text is covered by the invalid-response handler' % (name, fn),
                            A.site(fi, node), key='%s-%s-decode-unguarded' % (name, fn),
                            detail=ast.unparse(c),
                            behaviour='a 200 reply that is not valid UTF-8 raises out of '
                                      'connect() / kills the read loop: no disconnect event, the '
                                      "client stays 'connected' forever")
        A.floor(rule, '%s %s response decodes' % (name, fn), n, 1)


def status_gate_rule(A, cf, rule):
    """A polling response is used only if its status is 2xx: on every path that goes on to
    decode the body both bounds were tested (200 <= status and status < 300), and every
    comparison of the status is one of those two bounds."""
    name = cf['name']
    accepted = {(('S', 1), -200), (('S', -1), 199), (('S', -1), 299), (('S', 1), -300)}
    for fn in ('_connect_polling', '_read_loop_polling'):
        fi, ps = cpaths(A, cf, fn, keep={'r'})
        n = 0
        for p in ps:
            v = PV(p)
            forms = []
            for e in v.ev:
                if e.kind == 'guard' and e.depth == 0 and e.cls != 'decided' and \
                        re.search(r'\br\.status(_code)?\b', txt(e.expr)):
                    f = int_ordering(unawait(e.expr), e.pol, {'r.status_code': ('S', 0),
                                                               'r.status': ('S', 0)})
                    forms.append((f, e))
            for f, e in forms:
                key = None if f is None else (tuple(sorted(f[0].items()))[0] if len(f[0]) == 1
                                              else None, f[1])
                A.check(key in accepted, rule + '.status-gate', '%s %s: the response status is '
                        'compared with the 2xx bounds only' % (name, fn), A.site(fi, e.node),
                        key='%s-%s-status-bound' % (name, fn), detail=txt(e.expr),
                        behaviour='a 2xx reply is treated as a failure (the client drops a '
                                  'healthy connection) or a redirect/error body is decoded')
            dec = [i for i, e in enumerate(v.ev) if e.kind == 'call' and e.depth == 0 and
                   'payload.Payload(encoded_payload=' in txt(e.expr)]
            if dec:
                n += 1
                keys = {(tuple(sorted(f[0].items()))[0], f[1]) for f, e in forms
                        if f is not None and len(f[0]) == 1}
                A.check((('S', 1), -200) in keys and (('S', -1), 299) in keys,
                        rule + '.status-gate', '%s %s: a body is decoded only after 200 <= '
                        'status < 300 was established' % (name, fn), A.site(fi, v.node(dec[0])),
                        key='%s-%s-status-gate' % (name, fn), detail=v.describe(40),
                        behaviour='a redirect/error body is decoded as an Engine.IO payload')
        A.floor(rule, '%s %s paths that decode a body' % (name, fn), n, 1)


def request_result_rule(A, cf, rule):
    """What _send_request returned is classified before it is used: the status of a response
    is read only after both failure shapes (None, a text) were excluded; in the write loop a
    POST that did not get a 2xx ends the loop; and _send_request itself returns the response
    it got."""
    name = cf['name']
    st = re.compile(r'\br\.status(_code)?\b')
    for fn in ('_connect_polling', '_read_loop_polling', '_write_loop'):
        fi, ps = cpaths(A, cf, fn, keep={'r'}, loop_bound=1)
        n = 0
        for p in ps:
            v = PV(p)
            first = next((i for i, e in enumerate(v.ev) if e.kind == 'guard' and e.depth == 0 and
                          st.search(txt(e.expr))), None)
            if first is None:
                continue
            n += 1
            ga = {atom(e.expr, e.pol) for e in v.ev[:first] if e.kind == 'guard'}
            A.check(('r is None', False) in ga and ('isinstance(r, str)', False) in ga,
                    rule + '.request-failures', '%s %s: the status is read only from a real '
                    'response (neither None nor an error text)' % (name, fn),
                    A.site(fi, v.node(first)), key='%s-%s-result-classified' % (name, fn),
                    detail=v.describe(40),
                    behaviour='a failed request is treated as a response: AttributeError kills '
                              'the loop, no disconnect event')
            if fn == '_write_loop':
                forms = set()
                last = first
                for i, e in enumerate(v.ev):
                    if e.kind == 'guard' and e.depth == 0 and st.search(txt(e.expr)) and \
                            e.cls != 'decided':
                        f = int_ordering(unawait(e.expr), e.pol, {'r.status_code': ('S', 0),
                                                                   'r.status': ('S', 0)})
                        if f is not None and len(f[0]) == 1:
                            forms.add((tuple(sorted(f[0].items()))[0], f[1]))
                        last = i
                nxt_head = next((j for j in range(last + 1, len(v.ev))
                                 if v.ev[j].kind == 'guard' and
                                 atom(v.ev[j].expr, True)[0] == "self.state == 'connected'"),
                                len(v.ev))
                ended = any(e.kind == 'brk' for e in v.ev[last:nxt_head]) or \
                    any(e.kind == 'write' and txt(e.target) == 'self.write_loop_task'
                        for e in v.ev[last:nxt_head])
                # only the status tests of this round (since the last evaluation of the loop
                # condition) say how this POST was answered
                prev_head = max([j for j in range(last) if v.ev[j].kind == 'guard' and
                                 atom(v.ev[j].expr, True)[0] == "self.state == 'connected'"] + [0])
                forms = set()
                for e in v.ev[prev_head:last + 1]:
                    if e.kind == 'guard' and e.depth == 0 and st.search(txt(e.expr)) and \
                            e.cls != 'decided':
                        f = int_ordering(unawait(e.expr), e.pol, {'r.status_code': ('S', 0),
                                                                   'r.status': ('S', 0)})
                        if f is not None and len(f[0]) == 1:
                            forms.add((tuple(sorted(f[0].items()))[0], f[1]))
                good = (('S', 1), -200) in forms and (('S', -1), 299) in forms
                A.check(good != ended, rule + '.status-gate', '%s _write_loop: the loop goes on '
                        'after a POST exactly when it was answered 2xx' % name,
                        A.site(fi, v.node(last)), key='%s-write-loop-post-status' % name,
                        detail=v.describe(60),
                        behaviour='a refused POST is ignored (messages lost silently) or every '
                                  'successful POST ends the write loop')
        A.floor(rule, '%s %s paths that read the response status' % (name, fn), n, 1)
    sr = A.func(cf['cls'] + '._send_request')
    rets = [x for x in own_nodes(sr) if isinstance(x, ast.Return)]
    main = [x for x in rets if not any(isinstance(h, ast.ExceptHandler) and
                                       any(x is y for y in ast.walk(h))
                                       for h in ast.walk(sr.node))]
    A.check(bool(main) and all(isinstance(unawait(x.value), ast.Call) for x in main if True),
            rule + '.request-failures', '%s _send_request returns the response of the request '
            'it made' % name, A.site(sr), key='%s-send-request-return' % name,
            detail=[ast.unparse(x) for x in main],
            behaviour='every request looks refused: the client never connects')


def loop_condition_rule(A, cf, rule):
    """The client's loops run while (and only while) the client is connected."""
    name = cf['name']
    for fn in ('_read_loop_polling', '_read_loop_websocket', '_write_loop'):
        fi = A.func(cf['cls'] + '.' + fn)
        ws = [canon_while(n) for n in own_nodes(fi) if isinstance(n, ast.While)]
        outer = [w for w in ws if "self.state" in ast.unparse(w.test)]
        tests = None
        if not outer:
            # the condition may live in a local flag that is (re)computed by assignments
            for w_ in ws:
                if isinstance(w_.test, ast.Name):
                    vals = [n.value for n in own_nodes(fi) if isinstance(n, ast.Assign) and
                            any(isinstance(t_, ast.Name) and t_.id == w_.test.id
                                for t_ in n.targets)]
                    vals = [x for x in vals if not (isinstance(x, ast.Constant) and
                                                    x.value is False)]
                    if vals and all('self.state' in ast.unparse(x) for x in vals):
                        outer, tests = [w_], vals
                        break
        if not outer:
            raise AnalysisError('%s: main loop of %s not found' % (rule, fi.qualname))
        w = outer[0]
        for t in (tests or [w.test]):
            _loop_cond_check(A, cf, rule, fi, fn, w, t)


def _loop_cond_check(A, cf, rule, fi, fn, w, t):
    name = cf['name']
    if True:
        # the atoms that hold in every way the condition can be true (De Morgan aware)
        from sa.paths import _dnf
        alts = [{atom(x, pl) for x, pl in alt} for alt in _dnf(t, True)]
        atoms = set.intersection(*alts) if alts else set()
        A.check(("self.state == 'connected'", True) in atoms, rule + '.loop-condition',
                "%s %s runs while the client is 'connected'" % (name, fn), A.site(fi, w),
                key='%s-%s-loop-condition' % (name, fn), detail=ast.unparse(t),
                behaviour='the loop never runs (nothing is read / written) or keeps running '
                          'after a disconnect')


def write_loop_sentinel_rule(A, cf, rule):
    """The None sentinel ends the write loop: when it is the first item taken, nothing more
    is taken from the queue and nothing is sent."""
    name = cf['name']
    fi, ps = cpaths(A, cf, '_write_loop', keep={'r', 'p', 'packets'}, loop_bound=1)
    n = 0
    for p in ps:
        v = PV(p)
        gi = [i for i, c, pl in guards_matching(v, 'packets == [None]', True)]
        if not gi:
            continue
        n += 1
        later = v.ev[gi[0] + 1:]
        bad = [e for e in later if e.kind == 'call' and e.depth == 0 and (
            re.search(r'self\.queue\.get(_nowait)?\(', txt(e.expr)) or
            '_send_request(' in txt(e.expr) or re.search(r'self\.ws\.send', txt(e.expr)))]
        A.check(not bad and any(e.kind == 'call' and 'self.queue.task_done()' in txt(e.expr)
                                for e in later), rule + '.sentinel',
                '%s _write_loop: the None sentinel is accounted for and ends the loop without '
                'another read or send' % name, A.site(fi, v.node(gi[0])),
                key='%s-write-loop-sentinel' % name,
                detail=[txt(e.expr) for e in bad][:3] + v.describe(30),
                behaviour='after a disconnect the write loop keeps draining/sending, or real '
                          'packets are discarded as if they were the sentinel')
    A.floor(rule, '%s _write_loop sentinel paths' % name, n, 1)


def client_factory_rule(A, cf, rule):
    """create_queue() returns the queue it built; connect() falls back to every valid transport
    when none was asked for; _send_request reports a failure as text."""
    name = cf['name']
    cls = A.model.cls(cf['cls'])
    cq = A.model.find_method(cls, 'create_queue')
    for p in [p for p in A.paths(A.enum(follow_handlers=False), cq, cls) if p.outcome == 'return']:
        c = unawait(p.value)
        A.check(isinstance(c, ast.Call) and txt(c.func) in ('queue.Queue', 'asyncio.Queue'),
                rule + '.fresh-queue', '%s create_queue() returns the queue it created' % name,
                A.site(cq), key='%s-create-queue-return' % name, detail=txt(p.value),
                behaviour='connect() fails (or reuses something that is not a queue)')
    from .srvrules import transports_value_ok
    fi = A.func(cf['cls'] + '.connect')
    valid = ('valid_transports', "['polling', 'websocket']")
    for label, val in (('None', Const(None)),
                       ('one transport name', Kind('str', truthy=True, empty=False)),
                       ('a list of names', Kind('list'))):
        A.counters['cases'] += 1
        asm = {'transports': val, 'self.state': Const('disconnected')}
        ev = AbsEval(assume_from(asm))
        ps = [p for p in A.paths(A.enum(assume=assume_from(asm), follow_handlers=False,
                                        stop=lambda node, f: node.kind == 'return'),
                                 fi, cls) if p.outcome != 'raise']
        n = 0
        for p in ps:
            v = PV(p)
            wr = [e.expr for e in v.ev if e.kind == 'write' and e.depth == 0 and
                  txt(e.target) == 'self.transports']
            if not wr:
                continue
            n += 1
            A.check(transports_value_ok(wr[-1], ev, label, valid), rule + '.transports',
                    '%s connect(transports=%s): the valid names among those asked for, or '
                    'every valid one when none was asked for' % (name, label), A.site(fi),
                    key='%s-connect-transports' % name, detail=[txt(x) for x in wr],
                    behaviour='connect() without a transports argument fails or never '
                              'upgrades; a bare string makes the membership tests substring '
                              'tests')
        A.floor(rule, '%s connect() paths storing the transports (%s)' % (name, label), n, 1)
    sr = A.func(cf['cls'] + '._send_request')
    for node in ast.walk(sr.node):
        if isinstance(node, ast.ExceptHandler):
            for r_ in [x for st in node.body for x in ast.walk(st) if isinstance(x, ast.Return)]:
                v_ = r_.value
                A.check(isinstance(v_, ast.Call) and isinstance(v_.func, ast.Name) and
                        v_.func.id == 'str' or isinstance(v_, (ast.JoinedStr,)) or
                        (isinstance(v_, ast.Constant) and isinstance(v_.value, str) and v_.value),
                        rule + '.request-failures', '%s _send_request reports a failed request '
                        'as a (non-empty) text' % name, A.site(sr, r_),
                        key='%s-send-request-text' % name, detail=ast.unparse(r_),
                        behaviour='a failed request comes back as None and is taken for ... '
                                  'whatever the caller does with None: AttributeError in the '
                                  'loop, no disconnect event')
