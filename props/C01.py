"""C01 - packet codec (DESIGN.md 5/C01)."""
import ast

from sa.absval import Const, Kind, AbsEval
from sa.expr import txt, match, unawait, atom
from sa.model import AnalysisError
from sa.terms import flatten_concat, match_parts, parts_text, kwargs_of, is_literal
from .common import assume_from, only_path, final_writes, guards_text, describe

from .meta import meta
META = meta('C01', level='other', extra_tb=['json.dumps/json.loads and base64.b64encode/b64decode are mutually inverse (stdlib)', 'int(c) raises ValueError for a non-digit character', 'str(t) of a packet type 0..6 is its decimal digit'])

KINDS = ['str', 'bytes', 'bytearray', 'dict', 'list', 'none', 'int']
TEXT_TAG = {'str': 'text:str', 'dict': 'text:json', 'list': 'text:json', 'none': 'text:none',
            'int': 'text:other'}
BEHAV = 'the packet is put on the wire in a form an Engine.IO v4 peer does not decode to the same type/payload'


def _kind(k):
    if k == 'none':
        return Const(None)
    if k in ('str', 'bytes', 'bytearray'):
        return Kind(k)
    return Kind(k)


def classify_term(e):
    """Tag of a freshly computed wire term, or None."""
    parts = flatten_concat(e)
    typ = 'str(self.packet_type)'
    if match_parts([typ, 'self.data'], parts) is not None:
        return 'text:str'
    if match_parts([typ], parts) is not None:
        return 'text:none'
    if match_parts([typ, 'str(self.data)'], parts) is not None:
        return 'text:other'
    c = match_parts([typ, 'self.json.dumps(self.data, ___)'], parts)
    if c is not None:
        call = unawait(parts[1])
        kw = kwargs_of(call)
        if len(call.args) != 1:
            return None
        if 'separators' not in kw or not is_literal(kw['separators'], (',', ':')):
            return 'text:json-not-compact'
        if 'indent' in kw and not is_literal(kw['indent'], None):
            return 'text:json-not-compact'
        if 'ensure_ascii' in kw and not is_literal(kw['ensure_ascii'], True):
            # the text is later encoded as UTF-8: a lone surrogate left unescaped cannot be
            return 'text:json-not-ascii'
        if set(kw) - {'separators', 'indent', 'ensure_ascii', 'sort_keys', 'default',
                      'allow_nan'}:
            return None
        return 'text:json'
    for pat in (["'b'", "base64.b64encode(self.data).decode('utf-8')"],
                ["'b'", "base64.b64encode(self.data).decode('ascii')"],
                ["'b'", "base64.b64encode(self.data).decode()"],
                ["'b'", "base64.standard_b64encode(self.data).decode('utf-8')"],
                ["'b'", "str(base64.b64encode(self.data), 'utf-8')"],
                ["'b'", "str(base64.b64encode(self.data), 'ascii')"]):
        if match_parts(pat, parts) is not None:
            return 'b64'
    if len(parts) == 1 and match('self.data', parts[0]) is not None:
        return 'raw'
    if len(parts) == 1 and match('bytes(self.data)', parts[0]) is not None:
        return 'raw'
    return None


def check(A):
    m = A.model
    pk = m.module('packet')
    if 'Packet' not in pk.classes:
        raise AnalysisError('anchor class packet.Packet vanished')
    consts = {}
    for name in ('OPEN', 'CLOSE', 'PING', 'PONG', 'MESSAGE', 'UPGRADE', 'NOOP'):
        consts[name] = m.const_value(pk, name)
    A.check(sorted(consts.values()) == list(range(7)) and consts['MESSAGE'] == 4 and
            [consts[n] for n in ('OPEN', 'CLOSE', 'PING', 'PONG', 'MESSAGE', 'UPGRADE', 'NOOP')]
            == list(range(7)),
            'C01.types', 'packet type constants are OPEN..NOOP = 0..6 (Engine.IO v4)',
            site='src/engineio/packet.py', key='types', detail=str(consts), behaviour=BEHAV)
    try:
        names = m.const_value(pk, 'packet_names')
        A.check(list(names) == ['OPEN', 'CLOSE', 'PING', 'PONG', 'MESSAGE', 'UPGRADE', 'NOOP'],
                'C01.types', 'packet_names lists the 7 types in numeric order',
                site='src/engineio/packet.py', key='packet_names', detail=str(names))
    except AnalysisError:
        pass
    MESSAGE = consts['MESSAGE']
    init_state = constructor_cases(A, MESSAGE)
    encode_cases(A, init_state)
    decode_cases(A, MESSAGE)
    json_module(A)
    # the two consumers every packet passes through: the payload splitter must hand each
    # packet's text to decode() unchanged, and a WebSocket writer must put a binary packet in
    # a binary frame (the peer decodes a text frame as text)
    from . import C02, clirules
    C02.check(A, only_decode=True, prefix='C01')
    for cf in clirules.CFLAVOURS:
        clirules.write_loop_rules(A, cf, 'C01')
    # the poll response is built from the text-channel form of every packet
    from . import srvrules
    srvrules.constructor_rules(A, 'C01')



def constructor_cases(A, MESSAGE, record=True):
    init = A.func('packet.Packet.__init__')
    # ------------------------------------------------------------------ constructor
    init_state = {}
    for t in range(7):
        for k in KINDS:
            A.counters['cases'] += 1
            binary = k in ('bytes', 'bytearray')
            asm = {'packet_type': Const(t), 'data': _kind(k), 'encoded_packet': Const(None)}
            en = A.enum(assume=assume_from(asm))
            ps = only_path(A, A.paths(en, init), 'C01.init', (t, k), A.site(init))
            for p in ps:
                what = 'Packet(type=%d, data:%s)' % (t, k)
                if binary and t != MESSAGE:
                    A.check(p.outcome == 'raise' and p.cls == 'ValueError', 'C01.binary-message',
                            '%s is refused with ValueError' % what, A.site(init),
                            key='init-binary-nonmessage', detail=describe(p),
                            behaviour='a binary packet of a type other than MESSAGE is accepted')
                    continue
                if not A.check(p.outcome == 'return', 'C01.init', '%s is accepted' % what,
                               A.site(init), key='init-accept:%s' % k, detail=describe(p),
                               behaviour='a payload the API documents is refused'):
                    continue
                w = final_writes(p)
                ev = AbsEval(assume_from(asm), lambda e: A.resolver.const_expr(e, init))
                bv = ev.eval(w['self.binary']) if 'self.binary' in w else None
                A.check(isinstance(bv, Const) and bv.v is binary, 'C01.init',
                        '%s sets binary=%s' % (what, binary), A.site(init),
                        key='init-binary:%s' % k, detail=describe(p), behaviour=BEHAV)
                A.check(txt(w.get('self.packet_type')) == 'packet_type' and
                        txt(w.get('self.data')) == 'data', 'C01.init',
                        '%s stores type and payload unchanged' % what, A.site(init),
                        key='init-store', detail=describe(p), behaviour=BEHAV)
                if t == MESSAGE or not binary:
                    st = {}
                    for a, v in w.items():
                        if a in ('self.packet_type', 'self.data', 'self.binary'):
                            continue
                        st[a] = ev.eval(v)
                    init_state[k] = st
    A.sample({'case': 'Packet(type=4, data:bytes)', 'expect': 'binary=True, accepted'})
    # a packet constructed from its wire form is decoded from it
    for k, val in (('text', Kind('str', truthy=True, empty=False)), ('bytes', Kind('bytes'))):
        asm = {'encoded_packet': val, 'data': Const(None)}
        ps = A.paths(A.enum(assume=assume_from(asm), refine_raises=False), init)
        live = [p for p in ps if p.outcome == 'return']
        A.check(bool(live) and all(any(e.kind == 'call' and txt(e.expr) ==
                                       'self.decode(encoded_packet)' for e in p.events)
                                   for p in live), 'C01.init',
                'Packet(encoded_packet=<%s>) decodes the wire form' % k, A.site(init),
                key='init-decodes', detail=[describe(p) for p in live][:2],
                behaviour='received packets all look like empty MESSAGE packets')

    return init_state


def encode_cases(A, init_state, prefix='C01'):
    enc = A.func('packet.Packet.encode')
    # default channel of encode(): WebSocket writers call encode() without arguments
    d = enc.defaults().get('b64')
    A.check(d is not None and is_literal(d, False), prefix + '.default-channel',
            'encode() without arguments encodes for the binary-capable channel (b64=False)',
            A.site(enc), key='encode-default', detail=txt(d),
            behaviour='WebSocket frames carry base64 text instead of binary data')

    # ------------------------------------------------------------------ encode + cache
    # attributes encode writes / reads in guards
    en0 = A.enum()
    ps0 = A.paths(en0, enc)
    state_attrs = set()
    for p in ps0:
        for e in p.events:
            if e.kind == 'write' and e.depth == 0:
                state_attrs.add(txt(e.target))
    A.floor(prefix + '.encode', 'encode paths', len(ps0), 4)
    n_trans = 0
    for k in KINDS:
        binary = k in ('bytes', 'bytearray')
        st0 = {a: v for a, v in init_state.get(k, {}).items()}
        # attributes encode writes but __init__ does not initialise stay unknown (None)
        start = tuple(sorted((a, _freeze(st0.get(a))) for a in state_attrs | set(st0)))
        seen = {start}
        work = [(start, ())]
        while work:
            skey, hist = work.pop()
            state = dict((a, _thaw(v)) for a, v in skey)
            for b64 in (True, False):
                A.counters['cases'] += 1
                n_trans += 1
                asm = {'b64': Const(b64), 'self.binary': Const(binary), 'self.data': _kind(k)}
                for a, v in state.items():
                    if v is not None:
                        asm[a] = v
                en = A.enum(assume=assume_from(asm))
                ps = only_path(A, A.paths(en, enc), prefix + '.encode', (k, b64), A.site(enc))
                want = ('b64' if b64 else 'raw') if binary else TEXT_TAG[k]
                seq = hist + ('encode(b64=%s)' % b64,)
                what = '%s payload, %s returns the %s form' % (k, ' then '.join(seq), want)
                for p in ps:
                    if p.outcome != 'return':
                        A.violated(prefix + '.encode', what, A.site(enc), key='encode-raises:%s' % k,
                                   detail=describe(p), behaviour=BEHAV)
                        continue
                    ret = p.value
                    tag = None
                    rt = txt(ret)
                    if rt in state and isinstance(state[rt], Kind) and 'tag' in state[rt].attrs:
                        tag = state[rt].attrs['tag']
                        src = 'cached value (%s)' % rt
                    else:
                        tag = classify_term(ret)
                        src = 'term ' + parts_text(flatten_concat(ret))
                    if tag is None:
                        A.violated(prefix + '.wire', what, A.site(enc),
                                   key='encode-term-unrecognised:%s' % k,
                                   detail=['return value %s is not one of the Engine.IO v4 wire '
                                           'terms' % rt] + describe(p), behaviour=BEHAV)
                        continue
                    key = 'encode-cache:%s' % ('binary' if binary else k) if src.startswith(
                        'cached') else 'encode-term:%s:%s' % (k, 'b64' if b64 else 'raw')
                    A.check(tag == want, prefix + '.cache' if src.startswith('cached') else prefix + '.wire',
                            what, A.site(enc, p.events[-1].node if p.events else None), key=key,
                            detail=['got %s: %s' % (tag, src)] + describe(p),
                            behaviour=('Payload.encode() concatenates raw bytes into a text body '
                                       '(TypeError) or a WebSocket frame carries base64 text'
                                       if binary else BEHAV))
                    # successor state
                    new = dict(state)
                    ev = AbsEval(assume_from(asm))
                    for a, v in final_writes(p).items():
                        t2 = classify_term(v)
                        if txt(v) in state and state.get(txt(v)) is not None:
                            new[a] = state[txt(v)]
                        elif t2 is not None:
                            new[a] = Kind('other', truthy=True, tag=t2)
                        else:
                            new[a] = ev.eval(v)
                    nkey = tuple(sorted((a, _freeze(v)) for a, v in new.items()))
                    if nkey not in seen and len(seen) < 400:
                        seen.add(nkey)
                        work.append((nkey, seq if len(seq) < 6 else seq[-6:]))
        A.sample({'case': 'encode sequences for %s payload' % k, 'abstract_cache_states': len(seen)})
    A.notes.append('encode: %d abstract (state, channel) transitions explored to a fixpoint'
                   % n_trans)



def decode_cases(A, MESSAGE, prefix='C01'):
    dec = A.func('packet.Packet.decode')
    # ------------------------------------------------------------------ decode
    loads_t = 'self.json.loads(encoded_packet[1:])'
    inputs = [
        ('bytes frame', Kind('bytes'), 'binary'),
        ('bytearray frame', Kind('bytearray'), 'binary'),
        ("empty text ''", Kind('str', empty=True, truthy=False), 'error'),
        ("text 'b'+rest", Kind('str', empty=False, truthy=True, first='b'), 'b64'),
        ('text digit+rest', Kind('str', empty=False, truthy=True, first='digit'), 'text'),
        ('text other+rest', Kind('str', empty=False, truthy=True, first='other'), 'text'),
    ]
    json_kinds = [('dict', True), ('list', True), ('str', True), ('float', True),
                  ('none', True), ('int', False), ('bool', False)]
    for name, val, cls in inputs:
        cases = [(None, None)]
        if cls == 'text':
            cases = [(jk, keep) for jk, keep in json_kinds] + [('raises', False)]
        for jk, keep in cases:
            A.counters['cases'] += 1
            asm = {'encoded_packet': val}
            if jk not in (None, 'raises'):
                asm[loads_t] = Const(None) if jk == 'none' else Kind(jk)

            def hf(node, hnode, fi, jk=jk):
                # the handler is entered from the loads() call only in the 'raises' case
                return jk == 'raises'
            en = A.enum(assume=assume_from(asm), handler_filter=hf)
            ps = only_path(A, A.paths(en, dec), prefix + '.decode', name, A.site(dec))
            if jk == 'raises':
                ps = [p for p in ps if any(e.kind == 'exc' for e in p.events)]
                if not ps:
                    A.violated(prefix + '.decode', 'a payload that is not JSON stays text',
                               A.site(dec), key='decode-no-handler',
                               behaviour='plain text payloads make decode() fail')
                    continue
            else:
                ps = [p for p in ps if not any(e.kind == 'exc' and e.cls is None
                                               for e in p.events)]
            what = 'decode(%s%s)' % (name, '' if jk is None else ', JSON value kind %s' % jk)
            for p in ps:
                w = final_writes(p)
                if cls == 'error':
                    A.check(p.outcome == 'raise' and p.cls == 'ValueError', prefix + '.decode',
                            what + ' raises ValueError', A.site(dec), key='decode-empty',
                            detail=describe(p), behaviour='an empty packet is accepted')
                    continue
                if cls == 'text' and name.startswith('text other'):
                    # int('x') raises ValueError (trusted); nothing else to check on this input
                    # except that the type is taken from the first character
                    pass
                if not A.check(p.outcome == 'return', prefix + '.decode', what + ' succeeds',
                               A.site(dec), key='decode-ok:%s' % cls, detail=describe(p),
                               behaviour=BEHAV):
                    continue
                ev = AbsEval(assume_from(asm), lambda e: A.resolver.const_expr(e, dec))
                bval = ev.eval(w['self.binary']) if 'self.binary' in w else None
                tval = ev.eval(w['self.packet_type']) if 'self.packet_type' in w else None
                dtxt = txt(w.get('self.data'))
                if cls in ('binary', 'b64'):
                    A.check(isinstance(bval, Const) and bval.v is True and
                            isinstance(tval, Const) and tval.v == MESSAGE,
                            prefix + '.binary-message', what + ' reports a binary MESSAGE packet',
                            A.site(dec), key='decode-binary-type',
                            detail=describe(p),
                            behaviour='decoding reports a binary packet of another type')
                    if cls == 'binary':
                        ok = dtxt == 'encoded_packet' if name.startswith('bytes ') else \
                            dtxt == 'bytes(encoded_packet)'
                        A.check(ok, prefix + '.decode', what + ' keeps the bytes as payload (as bytes)',
                                A.site(dec), key='decode-binary-data', detail=describe(p),
                                behaviour=BEHAV)
                    else:
                        ok = dtxt in ('base64.b64decode(encoded_packet[1:])',
                                      'base64.standard_b64decode(encoded_packet[1:])')
                        A.check(ok, prefix + '.decode', what + ' base64-decodes the rest (standard '
                                'alphabet)', A.site(dec), key='decode-b64-data',
                                detail=describe(p), behaviour=BEHAV)
                else:
                    A.check(isinstance(bval, Const) and bval.v is False, prefix + '.decode',
                            what + ' is not binary', A.site(dec), key='decode-text-binary',
                            detail=describe(p), behaviour=BEHAV)
                    A.check(txt(w.get('self.packet_type')) == 'int(encoded_packet[0])',
                            prefix + '.decode', what + ' takes the type from the first character',
                            A.site(dec), key='decode-type', detail=describe(p), behaviour=BEHAV)
                    want = loads_t if keep else 'encoded_packet[1:]'
                    A.check(dtxt == want, prefix + '.json-lookalike',
                            what + ' yields ' + ('the JSON value' if keep else 'the text itself'),
                            A.site(dec), key='decode-json:%s' % jk, detail=describe(p),
                            behaviour=('integer-looking / true / false text does not stay text'
                                       if not keep else
                                       'a JSON object/array/string/float/null payload is not '
                                       'decoded'))
    A.sample({'case': "decode(text digit+rest, JSON value kind bool)", 'expect': 'text stays text'})



def json_module(A):
    m = A.model
    # ------------------------------------------------------------------ engineio.json
    jm = m.module('json')
    loads = jm.functions.get('loads')
    safe = jm.functions.get('_safe_int')
    if loads is None:
        raise AnalysisError('anchor json.loads vanished')
    installs = False
    for n in ast.walk(loads.node):
        if isinstance(n, ast.Assign) and len(n.targets) == 1 and \
                match("kwargs['parse_int']", n.targets[0]) is not None and \
                isinstance(n.value, ast.Name) and n.value.id in jm.functions:
            installs = n.value.id
        if isinstance(n, ast.Call):
            for k in n.keywords:
                if k.arg == 'parse_int' and isinstance(k.value, ast.Name):
                    installs = k.value.id
            ms = match("kwargs.setdefault('parse_int', _f)", n)
            if ms is not None and isinstance(ms['f'], ast.Name):
                installs = ms['f'].id
    hooks = set()
    for n in ast.walk(loads.node):
        if isinstance(n, ast.Subscript) and txt(n.value) == 'kwargs' and \
                isinstance(n.slice, ast.Constant) and isinstance(n.ctx, ast.Store):
            hooks.add(n.slice.value)
        if isinstance(n, ast.Call):
            ms = match('kwargs.setdefault(_k, _f)', n)
            if ms is not None and isinstance(ms['k'], ast.Constant):
                hooks.add(ms['k'].value)
            for k in n.keywords:
                if k.arg and k.arg.startswith('parse_') or k.arg == 'object_hook':
                    hooks.add(k.arg)
    A.check(hooks <= {'parse_int'}, 'C01.json-hooks', 'engineio.json.loads changes nothing but '
            'integer parsing (no other hook that could make a valid JSON value fail to decode)',
            A.site(loads), key='json-extra-hooks', detail=sorted(hooks),
            behaviour='a JSON float/object/constant that is valid JSON comes back as raw text')
    # ... on every path on which the caller did not bring a parse_int of its own
    lps = [p for p in A.paths(A.enum(follow_handlers=False), loads) if p.outcome == 'return']
    for p in lps:
        from sa.expr import atom
        ga = {atom(e.expr, e.pol) for e in p.events if e.kind == 'guard'}
        own = ("'parse_int' in kwargs", True) in ga
        wrote = any(e.kind == 'write' and "kwargs['parse_int']" in txt(e.target)
                    for e in p.events) or any(
            e.kind == 'call' and ("setdefault('parse_int'" in txt(e.expr) or
                                  'parse_int=' in txt(e.expr)) for e in p.events)
        if not own:
            A.check(wrote, 'C01.safe-int', 'loads() without a caller-supplied parse_int parses '
                    'integers through the bounded hook', A.site(loads), key='json-parse-int-path',
                    detail=describe(p),
                    behaviour='a huge integer literal makes decode() burn CPU (no bound)')
    A.check(bool(installs), 'C01.safe-int', 'engineio.json.loads installs a bounded parse_int',
            A.site(loads), key='json-parse-int',
            behaviour='a huge integer literal makes decode() burn CPU (no bound)')
    if installs and installs in jm.functions:
        sf = jm.functions[installs]
        en = A.enum()
        ps = A.paths(en, sf)
        def _too_long(p):
            # the refusing path is the one on which len(s) exceeds a (positive) bound
            from sa.expr import int_ordering
            for e in p.events:
                if e.kind == 'guard' and 'len(s)' in txt(e.expr):
                    f = int_ordering(unawait(e.expr), e.pol, {'len(s)': ('L', 0)})
                    if f is not None and f[0] == {'L': 1} and f[1] < 0:
                        return True
            return False
        bounded = [p for p in ps if p.outcome == 'raise' and p.cls == 'ValueError' and
                   _too_long(p)]
        A.check(not any(_too_long(p) for p in ps if p.outcome == 'return'), 'C01.safe-int',
                '%s never parses a literal it found over-long' % installs, A.site(sf),
                key='safe-int-polarity',
                behaviour='short integers are refused and over-long ones parsed')
        A.check(bool(bounded), 'C01.safe-int',
                '%s raises ValueError (the class decode() catches) for over-long literals'
                % installs, A.site(sf), key='safe-int-raise', detail=[describe(p) for p in ps][:3],
                behaviour='over-long integer literals are parsed, or fail with an error decode() '
                          'does not catch')
        rets = [p for p in ps if p.outcome == 'return']
        A.check(all(txt(p.value) == 'int(s)' for p in rets) and rets, 'C01.safe-int',
                '%s returns int(s) otherwise' % installs, A.site(sf), key='safe-int-ret')


def _freeze(v):
    if v is None:
        return None
    if isinstance(v, Const):
        return ('C', repr(v.v))
    if isinstance(v, Kind):
        return ('K', v.k, tuple(sorted(v.attrs.items())))
    return ('?', repr(v))


def _thaw(f):
    if f is None:
        return None
    if f[0] == 'C':
        return Const(ast.literal_eval(f[1]))
    if f[0] == 'K':
        return Kind(f[1], **dict(f[2]))
    return None
