"""Views over guarded-effect paths used by the socket/server/client rules."""
import ast

from sa.expr import txt, match, atom, unawait
from sa.absval import AbsEval, Const

NOISE_PRIMS = ('logger.', 'builtin:isinstance', 'builtin:len', 'builtin:str', 'builtin:int',
               'builtin:hasattr', 'builtin:getattr', 'builtin:callable', 'builtin:float',
               'builtin:bytes', 'builtin:type', 'str.', 'builtin:max', 'builtin:min')


class PV:
    """Path view: indexable event list with pattern helpers."""

    def __init__(self, path, depth=None):
        self.path = path
        self.ev = [e for e in path.events if depth is None or e.depth <= depth]

    # ---- selection ------------------------------------------------------------
    def calls(self, pattern, depth=None):
        """[(index, captures)] of call events matching pattern."""
        out = []
        for i, e in enumerate(self.ev):
            if e.kind == 'call' and (depth is None or e.depth == depth):
                c = match(pattern, e.expr)
                if c is not None:
                    out.append((i, c))
        return out

    def guards(self, text=None, pol=None, pred=None):
        out = []
        for i, e in enumerate(self.ev):
            if e.kind != 'guard':
                continue
            a, p = atom(e.expr, e.pol)
            if text is not None and a != text:
                continue
            if pol is not None and p != pol:
                continue
            if pred is not None and not pred(a, p, e):
                continue
            out.append(i)
        return out

    def guard_atoms(self, decided=True):
        return [atom(e.expr, e.pol) for e in self.ev
                if e.kind == 'guard' and (decided or e.cls != 'decided')]

    def writes(self, target=None):
        out = []
        for i, e in enumerate(self.ev):
            if e.kind == 'write' and (target is None or txt(e.target) == target):
                out.append((i, txt(e.expr)))
        return out

    def last_write(self, target):
        w = self.writes(target)
        return w[-1][1] if w else None

    def effects(self, depth=0):
        """Call events that are not logging / pure builtins, as (index, text)."""
        out = []
        for i, e in enumerate(self.ev):
            if e.kind != 'call' or (depth is not None and e.depth != depth):
                continue
            r = e.callee
            if r is not None and r.kind == 'prim' and any(
                    str(r.prim).startswith(n) for n in NOISE_PRIMS):
                continue
            out.append((i, txt(e.expr)))
        return out

    def kinds(self, kind):
        return [i for i, e in enumerate(self.ev) if e.kind == kind]

    def describe(self, limit=40):
        return self.path.describe(limit)

    def node(self, i):
        return self.ev[i].node if 0 <= i < len(self.ev) else None


def before(i, js):
    return [j for j in js if j < i]


def between(lo, hi, js):
    return [j for j in js if lo < j < hi]


def definite_index_error(expr, ev):
    """A subscript of a constant sequence by a constant index that is out of range and is
    evaluated (IfExp / and / or short-circuits respected).  Returns the Subscript or None."""
    e = unawait(expr)
    if isinstance(e, ast.IfExp):
        t = ev.truth(e.test)
        r = definite_index_error(e.test, ev)
        if r is not None:
            return r
        if t is True:
            return definite_index_error(e.body, ev)
        if t is False:
            return definite_index_error(e.orelse, ev)
        return None
    if isinstance(e, ast.BoolOp):
        for v in e.values:
            r = definite_index_error(v, ev)
            if r is not None:
                return r
            t = ev.truth(v)
            if t is None:
                return None
            if isinstance(e.op, ast.And) and not t:
                return None
            if isinstance(e.op, ast.Or) and t:
                return None
        return None
    if isinstance(e, ast.Subscript) and not isinstance(e.slice, ast.Slice):
        r = definite_index_error(e.value, ev) or definite_index_error(e.slice, ev)
        if r is not None:
            return r
        v, i = ev.eval(e.value), ev.eval(e.slice)
        if isinstance(v, Const) and isinstance(i, Const) and isinstance(v.v, (list, tuple, str)) \
                and isinstance(i.v, int) and not isinstance(i.v, bool):
            if not (-len(v.v) <= i.v < len(v.v)):
                return e
        return None
    if isinstance(e, (ast.Lambda, ast.ListComp, ast.SetComp, ast.DictComp, ast.GeneratorExp)):
        return None
    for c in ast.iter_child_nodes(e):
        if isinstance(c, ast.expr):
            r = definite_index_error(c, ev)
            if r is not None:
                return r
        elif isinstance(c, ast.keyword):
            r = definite_index_error(c.value, ev)
            if r is not None:
                return r
    return None


def eq_guard(e, pol):
    """Normalise an (in)equality guard to (Compare with Eq, polarity); other guards unchanged."""
    e = unawait(e)
    if isinstance(e, ast.Compare) and len(e.ops) == 1 and isinstance(e.ops[0], ast.NotEq):
        return ast.Compare(e.left, [ast.Eq()], e.comparators), (not pol)
    if isinstance(e, ast.Compare) and len(e.ops) == 1 and isinstance(e.ops[0], ast.IsNot):
        return ast.Compare(e.left, [ast.Is()], e.comparators), (not pol)
    if isinstance(e, ast.Compare) and len(e.ops) == 1 and isinstance(e.ops[0], ast.NotIn):
        return ast.Compare(e.left, [ast.In()], e.comparators), (not pol)
    if isinstance(e, ast.UnaryOp) and isinstance(e.op, ast.Not):
        return eq_guard(e.operand, not pol)
    return e, pol


def guards_matching(v, pattern, pol=None):
    """[(index, captures, polarity)] of guard events whose normalised condition matches."""
    out = []
    for i, e in enumerate(v.ev):
        if e.kind != 'guard':
            continue
        g, p = eq_guard(e.expr, e.pol)
        c = match(pattern, g)
        if c is not None and (pol is None or p == pol):
            out.append((i, c, p))
    return out


def own_nodes(fi):
    """AST nodes of fi's own body (nested function / class bodies are not entered)."""
    stack = list(ast.iter_child_nodes(fi.node))
    while stack:
        n = stack.pop()
        yield n
        if isinstance(n, (ast.FunctionDef, ast.AsyncFunctionDef, ast.ClassDef, ast.Lambda)):
            continue
        stack.extend(ast.iter_child_nodes(n))
