"""C11 - OPEN handshake (DESIGN.md 5/C11)."""
from . import srvrules as R
from .sockrules import FLAVOURS
from . import sockrules as S

from .meta import meta
META = meta('C11', level='other', extra_tb=None)


def check(A):
    for fl in FLAVOURS:
        R.handle_connect_rules(A, fl, 'C11')
        R.trigger_event_rules(A, fl, 'C11')
        S.get_request_rules(A, fl, 'C11')
    R.upgrades_rule(A, 'C11')
    R.sid_cookie_rule(A, 'C11')
    R.constructor_rules(A, 'C11')
    R.jsonp_rule(A, 'C11')
    R.generate_id_rules(A, 'C11')
    R.asgi_close_reason_rule(A, 'C11')
