"""C19 - compression and JSONP (DESIGN.md 5/C19)."""
from . import srvrules as R
from .sockrules import FLAVOURS

from .meta import meta
META = meta('C19', level='other', extra_tb=None)


def check(A):
    for fl in FLAVOURS:
        R.compression_rules(A, fl, 'C19')
    R.codec_registry_rules(A, 'C19')
    R.jsonp_rule(A, 'C19')
    R.constructor_rules(A, 'C19', fresh_rule='C19')
    R.driver_response_rules(A, 'C19')
    R.asgi_rules(A, 'C19', response_only=True)
    for fl in FLAVOURS:
        # the JSONP index of the handshake request reaches _ok together with the cookie header
        R.handle_connect_rules(A, fl, 'C19')
    # what Payload.encode concatenates is the text form of every packet, whatever was cached
    # on it before (rule shared with C01)
    from . import C01
    import copy
    msg = A.model.const_value(A.model.module('packet'), 'MESSAGE')
    sub = copy.copy(A)
    sub.obligations = []
    C01.encode_cases(A, C01.constructor_cases(sub, msg), prefix='C19')
