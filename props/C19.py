"""C19 - compression and JSONP (DESIGN.md 5/C19)."""
from . import srvrules as R
from .sockrules import FLAVOURS

from .meta import meta
META = meta('C19', level='other', extra_tb=None)


def check(A):
    for fl in FLAVOURS:
        R.compression_rules(A, fl, 'C19')
    R.codec_registry_rules(A, 'C19')
    R.jsonp_rule(A, 'C19')
    R.constructor_rules(A, 'C19', fresh_rule='C19')
    R.driver_response_rules(A, 'C19')
