"""C07 - heartbeat (DESIGN.md 5/C07)."""
from . import sockrules as S

META = {'level': 'other', 'explanation': 'see DESIGN.md 5/C07', 'trusted_base': [],
        'not_decided': [], 'assumptions': []}


def check(A):
    for fl in S.FLAVOURS:
        S.ping_task_rules(A, fl, 'C07')
        S.ping_timeout_rules(A, fl, 'C07')
        S.send_rules(A, fl, 'C07')
        S.poll_rules(A, fl, 'C07', timeout_rule='C07')
