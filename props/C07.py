"""C07 - heartbeat (DESIGN.md 5/C07)."""
from . import sockrules as S
from . import srvrules as R

from .meta import meta
META = meta('C07', level='other', extra_tb=None)


def check(A):
    for fl in S.FLAVOURS:
        S.ping_task_rules(A, fl, 'C07')
        S.ping_timeout_rules(A, fl, 'C07')
        S.send_rules(A, fl, 'C07')
        S.poll_rules(A, fl, 'C07', timeout_rule='C07')
        S.get_request_rules(A, fl, 'C07')
        R.service_task_rules(A, fl, 'C07')
        R.handle_connect_rules(A, fl, 'C07')
        S.receive_table(A, fl, 'C07')
        R.queue_unbounded_rule(A, fl, 'C07')
        R.last_ping_writers_rule(A, fl, 'C07')
        R.sweep_complete_rule(A, fl, 'C07')
        R.idle_guard_rule(A, fl, 'C07')
        R.create_event_rule(A, fl, 'C07')
    R.monitor_default_rule(A, 'C07')
    # a PONG that shares a POST body with buffered messages must not be refused with them:
    # the packet-count gate is exact (rule shared with C02)
    from . import C02
    C02.check(A, only_decode=True, prefix='C07')
    R.heartbeat_config_rule(A, 'C07')
    for fl in S.FLAVOURS:
        S.ping_callers_rule(A, fl, 'C07')
