"""Helpers shared by the property modules."""
import ast
import re

from sa.absval import Const, Kind
from sa.expr import txt, match, unawait, dotted, atom
from sa.model import AnalysisError


def assume_from(mapping):
    """assume hook from {canonical expression text: absval}."""
    def assume(e):
        if isinstance(e, (ast.Name, ast.Attribute, ast.Subscript, ast.Call)):
            return mapping.get(txt(e))
        return None
    return assume


def only_path(A, paths, rule, what, site):
    """Abstract cases are expected to select one path; several paths are all checked."""
    live = [p for p in paths if p.outcome != 'cut']
    if not live:
        raise AnalysisError('%s: no path for case %s at %s' % (rule, what, site))
    return live


def final_writes(path, depth=0):
    """attribute text -> last written value expr on the path (own frame only)."""
    out = {}
    for e in path.events:
        if e.kind == 'write' and e.depth == depth:
            out[txt(e.target)] = e.expr
    return out


def guards_text(path, decided=False):
    out = []
    for e in path.events:
        if e.kind == 'guard' and (decided or e.cls != 'decided'):
            a, p = atom(e.expr, e.pol)
            out.append(('' if p else 'not ') + a)
    return out


def calls_matching(path, pattern, depth=None):
    out = []
    for e in path.events:
        if e.kind == 'call' and (depth is None or e.depth == depth):
            c = match(pattern, e.expr)
            if c is not None:
                out.append((e, c))
    return out


def describe(path, limit=30):
    return path.describe(limit)


def has_guard(path, text, pol=True):
    for e in path.events:
        if e.kind == 'guard':
            a, p = atom(e.expr, e.pol)
            if a == text and p == pol:
                return True
    return False


def literal(e):
    try:
        return ast.literal_eval(e)
    except Exception:
        return NotImplemented


def or_default(path, value, x, d):
    """Is ``value`` (text of an expression evaluated on ``path``) the term ``x or d``?
    ``x or d``, ``x if x else d`` and ``if not x: x = d`` are the same paths: the value is x
    where the path established that x is truthy and d where it established the opposite."""
    if value == '%s or %s' % (x, d):
        return True
    if value == x and has_guard(path, x, True):
        return True
    if value == d and has_guard(path, x, False):
        return True
    return False


def placeholder_bind(path, idx):
    """Is event idx of path a placeholder binding (``x = None`` ahead of the real
    derivation)?  It is when the name is bound again later on the path, or when no later
    call on the path mentions the name."""
    e = path.events[idx]
    if e.kind != 'bind' or txt(e.expr) != 'None':
        return False
    name = txt(e.target)
    later = path.events[idx + 1:]
    if any(x.kind == 'bind' and x.depth == e.depth and txt(x.target) == name for x in later):
        return True
    pat = re.compile(r'(?<![\w.])%s(?![\w])' % re.escape(name))
    return not any(x.kind == 'call' and x.depth == e.depth and pat.search(txt(x.expr))
                   for x in later)
