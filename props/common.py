"""Helpers shared by the property modules."""
import ast

from sa.absval import Const, Kind
from sa.expr import txt, match, unawait, dotted, atom
from sa.model import AnalysisError


def assume_from(mapping):
    """assume hook from {canonical expression text: absval}."""
    def assume(e):
        if isinstance(e, (ast.Name, ast.Attribute, ast.Subscript, ast.Call)):
            return mapping.get(txt(e))
        return None
    return assume


def only_path(A, paths, rule, what, site):
    """Abstract cases are expected to select one path; several paths are all checked."""
    live = [p for p in paths if p.outcome != 'cut']
    if not live:
        raise AnalysisError('%s: no path for case %s at %s' % (rule, what, site))
    return live


def final_writes(path, depth=0):
    """attribute text -> last written value expr on the path (own frame only)."""
    out = {}
    for e in path.events:
        if e.kind == 'write' and e.depth == depth:
            out[txt(e.target)] = e.expr
    return out


def guards_text(path, decided=False):
    out = []
    for e in path.events:
        if e.kind == 'guard' and (decided or e.cls != 'decided'):
            a, p = atom(e.expr, e.pol)
            out.append(('' if p else 'not ') + a)
    return out


def calls_matching(path, pattern, depth=None):
    out = []
    for e in path.events:
        if e.kind == 'call' and (depth is None or e.depth == depth):
            c = match(pattern, e.expr)
            if c is not None:
                out.append((e, c))
    return out


def describe(path, limit=30):
    return path.describe(limit)


def has_guard(path, text, pol=True):
    for e in path.events:
        if e.kind == 'guard':
            a, p = atom(e.expr, e.pol)
            if a == text and p == pol:
                return True
    return False


def literal(e):
    try:
        return ast.literal_eval(e)
    except Exception:
        return NotImplemented
