"""Rules over Socket / AsyncSocket (both flavours), shared by C03-C07, C14, C15, C18."""
import ast

from sa.absval import AbsEval, Const, Kind
from sa.expr import txt, match, atom, unawait, linear, lin_text, int_ordering, ordering
from sa.model import AnalysisError, exc_is_subclass
from .common import assume_from, describe, or_default
from .seq import PV, definite_index_error, before, between, guards_matching, own_nodes

FLAVOURS = [
    {'name': 'threaded', 'socket': 'socket.Socket', 'server': 'server.Server',
     'smod': 'socket'},
    {'name': 'asyncio', 'socket': 'async_socket.AsyncSocket', 'server': 'async_server.AsyncServer',
     'smod': 'async_socket'},
]


def pconsts(A):
    pk = A.model.module('packet')
    return {n: A.model.const_value(pk, n)
            for n in ('OPEN', 'CLOSE', 'PING', 'PONG', 'MESSAGE', 'UPGRADE', 'NOOP')}


def evaluator(A, fi, asm=None):
    return AbsEval(assume_from(asm or {}), lambda e: A.resolver.const_expr(e, fi))


def packet_ctor(A, fi, expr, asm=None):
    """(type value|None, data expr|None, encoded expr|None) of a Packet(...) construction."""
    c = unawait(expr)
    if not isinstance(c, ast.Call):
        return None
    r = A.resolver.resolve(c, fi, fi.cls)
    if r.kind != 'class' or not r.funcs or r.funcs[0][1].name != 'Packet':
        return None
    from sa.paths import bind_args
    args = bind_args(r.funcs[0][0], c, None)
    ev = evaluator(A, fi, asm)
    t = ev.eval(args.get('packet_type')) if args.get('packet_type') is not None else None
    d = args.get('data')
    if isinstance(d, ast.Constant) and d.value is None:
        d = None
    enc = args.get('encoded_packet')
    if isinstance(enc, ast.Constant) and enc.value is None:
        enc = None
    return (t.v if isinstance(t, Const) else None, d, enc)


# ---------------------------------------------------------------------------------------
# receive(): dispatch table over packet types 0..9
# ---------------------------------------------------------------------------------------
def receive_table(A, fl, rule):
    P = pconsts(A)
    fi = A.func(fl['socket'] + '.receive')
    sock = A.model.cls(fl['socket'])
    beh = {
        'PONG': 'a PONG does not re-arm the heartbeat (or does something else)',
        'MESSAGE': 'a MESSAGE does not produce exactly one message event with the payload unchanged',
        'UPGRADE': 'an UPGRADE packet is not answered with NOOP',
        'CLOSE': 'a CLOSE packet does not end the session as a client disconnect',
        'other': 'an undefined / unexpected packet type is not refused as a protocol error',
    }
    for t in range(10):
        A.counters['cases'] += 1
        asm = {'pkt.packet_type': Const(t)}
        en = A.enum(assume=assume_from(asm))
        ps = [p for p in A.paths(en, fi, sock) if p.outcome != 'cut']
        name = next((n for n, v in P.items() if v == t), 'type %d' % t)
        kind = name if name in ('PONG', 'MESSAGE', 'UPGRADE', 'CLOSE') else 'other'
        what = '%s receive(%s)' % (fl['name'], name)
        site = A.site(fi)
        ev = evaluator(A, fi, asm)
        normal = [p for p in ps if not any(e.kind == 'exc' for e in p.events)]
        if not normal:
            raise AnalysisError('%s: no normal path for %s' % (rule, what))
        for p in ps:
            v = PV(p)
            for e in v.ev:
                if e.kind in ('call', 'guard') and e.expr is not None:
                    bad = definite_index_error(e.expr, ev)
                    if bad is not None:
                        A.violated(rule + '.total', what + ': every statement before the dispatch '
                                   'is total on wire types 0..9', A.site(fi, e.node),
                                   key='%s-receive-index' % fl['name'],
                                   detail=['%s raises IndexError for packet type %d' %
                                           (txt(bad), t)],
                                   behaviour='IndexError instead of UnknownPacketError: the POST is '
                                             'answered 200 and the session stays alive')
                        break
        for p in normal:
            v = PV(p)
            eff = [(i, s) for i, s in v.effects(0)]
            texts = [s for _, s in eff]
            key = '%s-receive-%s' % (fl['name'], kind)
            det = ['effects: %r' % texts] + v.describe()
            if kind == 'PONG':
                ok = len(eff) == 1 and v.calls('self.schedule_ping()') and p.outcome == 'return'
            elif kind == 'MESSAGE':
                ok = len(eff) == 1 and p.outcome == 'return' and bool(v.calls(
                    "self.server._trigger_event('message', self.sid, pkt.data, "
                    "run_async=self.server.async_handlers, _strict=True)"))
            elif kind == 'UPGRADE':
                sends = v.calls('self.send(_p)')
                ok = len(sends) == 1 and p.outcome == 'return'
                if ok:
                    pc = packet_ctor(A, fi, sends[0][1]['p'], asm)
                    ok = pc is not None and pc[0] == P['NOOP'] and pc[1] is None and pc[2] is None
                ok = ok and len([s for s in texts if not s.startswith('packet.Packet(')]) == 1
            elif kind == 'CLOSE':
                cl = v.calls('self.close(wait=False, abort=True, '
                             'reason=self.server.reason.CLIENT_DISCONNECT, _strict=True)')
                ok = len(eff) == 1 and len(cl) == 1 and p.outcome == 'return'
            else:
                ok = p.outcome == 'raise' and p.cls == 'UnknownPacketError' and \
                    all(s.startswith('exceptions.UnknownPacketError(') for s in texts)
            A.check(ok, rule + '.dispatch', what + ' has exactly the prescribed effect',
                    site, key=key, detail=det, behaviour=beh[kind])
    A.sample({'rule': rule + '.dispatch', 'flavour': fl['name'],
              'case': 'receive(MESSAGE) -> one _trigger_event(message, sid, pkt.data)'})


# ---------------------------------------------------------------------------------------
# handle_post_request(): size gate, bounded read, decode before dispatch, closed check
# ---------------------------------------------------------------------------------------
def post_request(A, fl, rule):
    fi = A.func(fl['socket'] + '.handle_post_request')
    sock = A.model.cls(fl['socket'])
    en = A.enum(loop_bound=2, follow_handlers=False)
    ps = [p for p in A.paths(en, fi, sock) if p.outcome != 'cut']
    site = A.site(fi)
    n_read = n_refuse = 0
    length_t = "int(environ.get('CONTENT_LENGTH', '0'))"
    symmap = {length_t: ('L', 0), 'self.server.max_http_buffer_size': ('M', 0)}
    for p in ps:
        v = PV(p)
        reads = v.calls("environ['wsgi.input'].read(___)")
        gate = None
        for i in v.guards():
            e = v.ev[i]
            f = int_ordering(e.expr, e.pol, symmap)
            if f is not None and 'L' in f[0] and 'M' in f[0]:
                gate = (i, f)
                break
        if p.outcome == 'raise' and p.cls == 'ContentTooLongError' and not reads:
            n_refuse += 1
            A.check(gate is not None and gate[1] == ({'L': 1, 'M': -1}, -1), rule + '.gate',
                    '%s: a POST is refused exactly when the declared length exceeds '
                    'max_http_buffer_size' % fl['name'], A.site(fi, v.node(gate[0]) if gate else None),
                    key='%s-post-gate' % fl['name'],
                    detail=['guard form: %s' % (gate[1],) if gate else 'no gate'] + v.describe(),
                    behaviour='a body of exactly the limit is refused, or one byte more is accepted')
            continue
        if not reads:
            if p.outcome == 'raise':
                continue
            A.violated(rule + '.read', '%s: an accepted POST reads its body' % fl['name'], site,
                       key='%s-post-noread' % fl['name'], detail=v.describe())
            continue
        n_read += 1
        ri, rc = reads[0]
        call = unawait(v.ev[ri].expr)
        A.check(gate is not None and gate[0] < ri and gate[1] == ({'L': -1, 'M': 1}, 0),
                rule + '.gate', '%s: the body is read only after the length gate passed '
                '(length <= max_http_buffer_size)' % fl['name'], A.site(fi, v.node(ri)),
                key='%s-post-gate-order' % fl['name'],
                detail=['guard form: %s' % (gate[1],) if gate else 'no gate'] + v.describe(),
                behaviour='an oversize body is read / processed')
        A.check(len(call.args) == 1 and txt(call.args[0]) == length_t and not call.keywords,
                rule + '.bounded-read', '%s: the read is bounded by the checked declared length'
                % fl['name'], A.site(fi, v.node(ri)), key='%s-post-read-arg' % fl['name'],
                detail=txt(call),
                behaviour='more body bytes are read than the declared length / the limit')
        pay = v.calls('payload.Payload(encoded_payload=_b)')
        recv = v.calls('self.receive(_p)')
        body_t = "environ['wsgi.input'].read(%s).decode('utf-8')" % length_t
        A.check(len(pay) == 1 and txt(pay[0][1]['b']) == body_t and
                all(pay[0][0] < r for r, _ in recv), rule + '.decode-first',
                '%s: the whole body is decoded (and may be refused) before any packet is '
                'dispatched' % fl['name'], site, key='%s-post-decode-first' % fl['name'],
                detail=v.describe(),
                behaviour='packets of a body that fails to decode are acted upon')
        iters = [i for i in v.kinds('iter') if v.ev[i].pol]
        stopped = v.guards('self.closed', True) + v.guards('self.closing', True)
        n_expected = len(iters) - (1 if stopped and iters and stopped[-1] > iters[-1] else 0)
        A.check(all(txt(v.ev[i].expr) == 'payload.Payload(encoded_payload=%s).packets' % body_t
                    for i in iters) and len(recv) == n_expected and
                (not stopped or not recv or recv[-1][0] < stopped[-1]) and
                all(txt(c['p']) == '_elem(payload.Payload(encoded_payload=%s).packets, %d)'
                    % (body_t, k) for k, (_, c) in enumerate(recv)),
                rule + '.once-in-order', '%s: receive() is called exactly once per packet, in wire '
                'order' % fl['name'], site, key='%s-post-once' % fl['name'], detail=v.describe(),
                behaviour='a packet is processed twice, skipped or out of order')
        # nothing is dispatched to a closed session: a closed-test guards every receive()
        for k, (ri2, _) in enumerate(recv):
            lo = recv[k - 1][0] if k else pay[0][0] if pay else -1
            g = [i for i in v.guards('self.closed', False) if lo < i < ri2]
            A.check(bool(g), 'C05.none-after' if rule.startswith('C05') else rule + '.closed-check',
                    '%s: packet #%d of a body is dispatched only after testing that the session '
                    'is not closed' % (fl['name'], k + 1), A.site(fi, v.node(ri2)),
                    key='%s-post-closed-check' % fl['name'], detail=v.describe(),
                    behaviour='a message event is delivered after the disconnect event '
                              '(CLOSE followed by MESSAGE in one body, or a session closed while '
                              'the body was being read)')
    A.floor(rule, '%s handle_post_request reading paths' % fl['name'], n_read, 2)
    A.check(n_refuse >= 1, rule + '.gate', '%s: oversize POSTs are refused with '
            'ContentTooLongError before reading' % fl['name'], site,
            key='%s-post-no-refusal' % fl['name'],
            behaviour='no size limit on POST bodies')


# ---------------------------------------------------------------------------------------
# close(): once-only disconnect
# ---------------------------------------------------------------------------------------
def close_once(A, fl, rule):
    fi = A.func(fl['socket'] + '.close')
    sock = A.model.cls(fl['socket'])
    P = pconsts(A)
    d = fi.defaults()
    A.check(match('True', d.get('wait')) is not None and match('False', d.get('abort')) is not None
            and match('None', d.get('reason')) is not None, rule + '.defaults',
            '%s close() defaults: wait=True, abort=False, reason=None' % fl['name'], A.site(fi),
            key='%s-close-defaults' % fl['name'], detail={k: txt(x) for k, x in d.items()})
    en = A.enum()
    ps = [p for p in A.paths(en, fi, sock) if p.outcome != 'cut']
    n_fire = 0
    for p in ps:
        v = PV(p)
        trig = v.calls("self.server._trigger_event('disconnect', ___)")
        g_closed = v.guards('self.closed', False)
        g_closing = v.guards('self.closing', False)
        if not (g_closed and g_closing):
            # a close() on a session that is already closed / closing has no effect at all
            eff = v.effects(0)
            A.check(not eff and not v.writes() and p.outcome == 'return', rule + '.idempotent',
                    '%s close() on a closed or closing session does nothing' % fl['name'],
                    A.site(fi), key='%s-close-reentry' % fl['name'], detail=v.describe(),
                    behaviour='a second end cause fires a second disconnect event')
            continue
        if any(e.kind == 'exc' for e in p.events):
            continue
        n_fire += 1
        site = A.site(fi)
        A.check(len(trig) == 1, rule + '.once', '%s close() fires the disconnect event exactly '
                'once when it passes the guard' % fl['name'], site,
                key='%s-close-trigger-count' % fl['name'], detail=v.describe(),
                behaviour='zero or two disconnect events for one session')
        if len(trig) != 1:
            continue
        ti = trig[0][0]
        call = unawait(v.ev[ti].expr)
        wr = [i for i, val in v.writes('self.closing') if val == 'True' and i < ti]
        gmax = max(g_closed[0], g_closing[0])
        A.check(bool(wr), rule + '.once', '%s close() sets closing=True before the disconnect '
                'handler runs' % fl['name'], A.site(fi, v.node(ti)),
                key='%s-close-closing-before-trigger' % fl['name'], detail=v.describe(),
                behaviour='a second end cause arriving while the handler runs (or awaits) passes '
                          'the guard again: two disconnect events')
        if wr:
            mid = [i for i, e in enumerate(v.ev) if gmax < i < wr[0] and e.kind == 'call']
            A.check(not mid, rule + '.once', '%s close(): nothing runs between the guard and '
                    'closing=True' % fl['name'], A.site(fi, v.node(wr[0])),
                    key='%s-close-atomic' % fl['name'], detail=v.describe(),
                    behaviour='re-entrancy window between test and set')
        # event arguments
        ok = len(call.args) >= 3 and txt(call.args[1]) == 'self.sid' and \
            or_default(p, txt(call.args[2]), 'reason', 'self.server.reason.SERVER_DISCONNECT') and \
            any(k.arg == 'run_async' and match('False', k.value) is not None
                for k in call.keywords)
        A.check(ok, rule + '.reason', "%s close() reports its own sid, the caller's reason "
                '(default: server disconnect), synchronously' % fl['name'],
                A.site(fi, v.node(ti)), key='%s-close-trigger-args' % fl['name'],
                detail=txt(call), behaviour='the disconnect reason does not name the cause')
        # CLOSE packet unless abort
        sends = v.calls('self.send(_p)')
        abort = ('abort', True) in v.guard_atoms()
        if abort:
            A.check(not sends, rule + '.abort', '%s close(abort=True) sends nothing' % fl['name'],
                    site, key='%s-close-abort-send' % fl['name'], detail=v.describe())
        else:
            ok = len(sends) == 1 and sends[0][0] > ti
            if ok:
                pc = packet_ctor(A, fi, sends[0][1]['p'])
                ok = pc is not None and pc[0] == P['CLOSE'] and pc[1] is None
            A.check(ok, rule + '.close-packet', '%s close(abort=False) queues one CLOSE packet '
                    'after the event' % fl['name'], site,
                    key='%s-close-packet' % fl['name'], detail=v.describe(),
                    behaviour='the peer is not told that the session ended')
        cw = [i for i, val in v.writes('self.closed') if val == 'True']
        A.check(len(cw) == 1 and cw[0] > ti and all(cw[0] > s for s, _ in sends),
                rule + '.closed', '%s close() marks the session closed after the event and the '
                'CLOSE packet' % fl['name'], site, key='%s-close-closed' % fl['name'],
                detail=v.describe(),
                behaviour='the session is never (or too early) marked closed: send() of the CLOSE '
                          'packet raises, or the table keeps a dead session')
        joins = v.calls('self.queue.join()')
        puts = v.calls('self.queue.put(None)') + v.calls('self.queue.put_nowait(None)')
        if cw:
            A.check(all(j > cw[0] for j, _ in joins) and all(j > cw[0] for j, _ in puts),
                    rule + '.closed', '%s close() marks the session closed before it releases / '
                    'waits for the transport' % fl['name'], site,
                    key='%s-close-closed-before-wait' % fl['name'], detail=v.describe(),
                    behaviour='a close that blocks in join() leaves the session not closed: it '
                              'stays addressable and is never reaped')
        wait = ('wait', True) in v.guard_atoms()
        A.check(bool(joins) == wait, rule + '.wait', '%s close() waits for the queue iff wait is '
                'true' % fl['name'], site, key='%s-close-wait' % fl['name'], detail=v.describe(),
                behaviour='close(wait=False) blocks / close(wait=True) does not wait')
    A.floor(rule, '%s close() firing paths' % fl['name'], n_fire, 2)
    # monotone flags: closed / closing are only ever assigned True outside BaseSocket.__init__
    for f in A.model.all_funcs():
        if f.module.name not in ('socket', 'async_socket', 'server', 'async_server', 'base_server',
                                 'base_socket'):
            continue
        for n in ast.walk(f.node):
            if isinstance(n, ast.Assign):
                for t in n.targets:
                    if isinstance(t, ast.Attribute) and t.attr in ('closed', 'closing') and \
                            not (f.name == '__init__' and f.cls and f.cls.name == 'BaseSocket'):
                        A.check(match('True', n.value) is not None, rule + '.monotone',
                                'closed/closing are only ever set to True (%s)' % f.qualname,
                                A.site(f, n), key='monotone-%s' % t.attr, detail=ast.unparse(n),
                                behaviour='a closed session becomes live again: a second '
                                          'disconnect event is possible')


# ---------------------------------------------------------------------------------------
# helpers for the WebSocket handler
# ---------------------------------------------------------------------------------------
def _calls_ws_wait(fi):
    return any(isinstance(n, ast.Call) and isinstance(n.func, ast.Attribute) and
               n.func.attr == 'wait' and isinstance(n.func.value, ast.Name) and
               n.func.value.id == 'ws' for n in ast.walk(fi.node))


def handler_paths(A, fl):
    """Paths of _websocket_handler with its frame-reading helper(s) inlined."""
    cache = A.__dict__.setdefault('_handler_paths', {})
    key = fl['name']
    if key in cache:
        return cache[key]
    fi = A.func(fl['socket'] + '._websocket_handler')
    sock = A.model.cls(fl['socket'])
    readers = [f for f in fi.nested.values() if _calls_ws_wait(f)]
    if not readers:
        raise AnalysisError('no nested frame reader (a function calling ws.wait()) in %s'
                            % fi.qualname)

    def inl(ev, callee, depth):
        return callee in readers

    def opaque(st, f):
        return isinstance(st, (ast.For, ast.If)) and 'settimeout' in ast.unparse(st) and \
            'ws.wait' not in ast.unparse(st)
    en = A.enum(inline=inl, opaque=opaque, max_paths=60000)
    ps = [p for p in A.paths(en, fi, sock) if p.outcome != 'cut']
    cache[key] = (fi, sock, readers, ps)
    return cache[key]


def _pk(A, fi, expr, P):
    pc = packet_ctor(A, fi, expr)
    return pc


WAITP = 'ws.wait()'


def upgrade_handshake(A, fl, rule):
    """C06.1: the only way to upgraded=True on an already connected session is
    wait1 -> PING 'probe' -> send PONG 'probe' -> queue NOOP -> wait2 -> UPGRADE."""
    P = pconsts(A)
    fi, sock, readers, ps = handler_paths(A, fl)
    n_ok = 0
    n_fail = 0
    for p in ps:
        v = PV(p)
        if ('self.connected', True) not in v.guard_atoms():
            continue
        ups = [i for i, val in v.writes('self.upgraded') if val == 'True']
        waits = v.calls(WAITP)
        site = A.site(fi)
        if not ups:
            n_fail += 1
            # failed handshake: no writer task, no packet dispatched, handler returns / raises
            started = v.calls('self.server.start_background_task(___)') + \
                v.calls('asyncio.ensure_future(writer())') + v.calls('self.receive(___)') + \
                v.calls('self.poll()')
            A.check(not started, rule + '.failure-inert',
                    '%s: a failed handshake starts no writer and dispatches nothing' % fl['name'],
                    site, key='%s-handshake-failure-effects' % fl['name'], detail=v.describe(60),
                    behaviour='a session that did not complete the probe handshake is served on '
                              'the WebSocket')
            continue
        ui = ups[0]
        n_ok += 1
        w = [i for i, _ in waits if i < ui]
        g_ping = [i for i, c, pl in guards_matching(
            v, 'packet.Packet(encoded_packet=ws.wait()).packet_type == packet.PING', True)]
        g_probe = [i for i, c, pl in guards_matching(
            v, "packet.Packet(encoded_packet=ws.wait()).data == 'probe'", True)]
        g_upg = [i for i, c, pl in guards_matching(
            v, 'packet.Packet(encoded_packet=ws.wait()).packet_type == packet.UPGRADE', True)]
        sends = [(i, c) for i, c in v.calls('ws.send(_p.encode())') if i < ui]
        puts = [(i, c) for i, c in v.calls('self.queue.put(_p)') if i < ui]
        ok = len(w) == 2 and g_ping and g_probe and g_upg and len(sends) == 1 and len(puts) == 1
        if ok:
            pong = packet_ctor(A, fi, sends[0][1]['p'])
            noop = packet_ctor(A, fi, puts[0][1]['p'])
            ok = pong is not None and pong[0] == P['PONG'] and pong[1] is not None and \
                match("'probe'", pong[1]) is not None and \
                noop is not None and noop[0] == P['NOOP'] and noop[1] is None
            ok = ok and w[0] < g_ping[0] < sends[0][0] and w[0] < g_probe[0] < sends[0][0] and \
                sends[0][0] < puts[0][0] < w[1] < g_upg[0] < ui
        A.check(bool(ok), rule + '.handshake',
                "%s: upgraded=True is reached only through wait -> PING 'probe' -> send PONG "
                "'probe' -> queue NOOP -> wait -> UPGRADE, in that order" % fl['name'],
                A.site(fi, v.node(ui)), key='%s-handshake-order' % fl['name'],
                detail=v.describe(60),
                behaviour='a session switches to WebSocket without the probe handshake (wrong '
                          'first frame, wrong payload or no UPGRADE)')
    A.require(rule + '.handshake', '%s: a connected session can complete the probe handshake and '
              'becomes upgraded' % fl['name'], n_ok, 1, A.site(fi),
              key='%s-handshake-no-success' % fl['name'],
              behaviour='an upgrade never completes (upgraded is never set): the session is stuck')
    A.floor(rule, '%s failed-upgrade paths' % fl['name'], n_fail, 2)
    A.sample({'rule': rule + '.handshake', 'flavour': fl['name'], 'success_paths': n_ok,
              'failure_paths': n_fail})


def direct_websocket(A, fl, rule):
    """C06: a WebSocket opened without prior polling is in WebSocket mode at once; the writer
    is started only on an upgraded session."""
    fi, sock, readers, ps = handler_paths(A, fl)
    n = 0
    for p in ps:
        v = PV(p)
        starts = v.calls('self.server.start_background_task(writer)') + \
            v.calls('asyncio.ensure_future(writer())')
        if ('self.connected', False) in v.guard_atoms():
            n += 1
            wc = [i for i, val in v.writes('self.connected') if val == 'True']
            wu = [i for i, val in v.writes('self.upgraded') if val == 'True']
            first_io = [i for i, _ in v.calls(WAITP)] + [i for i, _ in starts]
            A.check(wc and wu and (not first_io or max(wc[0], wu[0]) < min(first_io)),
                    rule + '.direct', '%s: a WebSocket-only session is connected and upgraded '
                    'before any frame is read or written' % fl['name'], A.site(fi),
                    key='%s-direct-ws' % fl['name'], detail=v.describe(40),
                    behaviour='a direct WebSocket session is treated as a polling session')
        for si, _ in starts:
            lw = [val for i, val in v.writes('self.upgraded') if i < si]
            A.check(lw and lw[-1] == 'True', rule + '.writer-after-upgrade',
                    '%s: the WebSocket writer (which drains the queue) starts only once the '
                    'session is upgraded' % fl['name'], A.site(fi, v.node(si)),
                    key='%s-writer-start' % fl['name'], detail=v.describe(40),
                    behaviour='packets leave on the WebSocket while polling may still deliver '
                              'them: two transports for one message')
    A.floor(rule, '%s direct-websocket paths' % fl['name'], n, 1)


def ws_read_loop(A, fl, rule, closed_rule=None):
    """C04/C05/C14: steady-state frame loop: every frame goes through the size gate, is
    dispatched exactly once, never to a closed session; epilogue closes with TRANSPORT_CLOSE."""
    fi, sock, readers, ps = handler_paths(A, fl)
    # WHO-MAY: ws.wait() only inside the gated reader(s)
    for f in [fi] + [g for g in fi.nested.values() if g not in readers]:
        bad = [n for n in ast.walk(f.node) if isinstance(n, ast.Call) and
               match('ws.wait()', n) is not None and
               not any(n in list(ast.walk(r.node)) for r in readers)]
        A.check(not bad, rule + '.gated-read',
                '%s: frames are read only through the size-gated reader (%s)' %
                (fl['name'], ', '.join(r.name for r in readers)), A.site(f, bad[0] if bad else None),
                key='%s-ws-raw-wait' % fl['name'],
                behaviour='an oversize WebSocket frame reaches the application')
    # the gate itself
    for r in readers:
        en = A.enum(follow_handlers=False)
        rps = [p for p in A.paths(en, r, sock) if p.outcome != 'cut']
        symmap = {'len(ws.wait())': ('L', 0), 'self.server.max_http_buffer_size': ('M', 0)}
        ok_ret = ok_raise = False
        for p in rps:
            v = PV(p)
            forms = [int_ordering(v.ev[i].expr, v.ev[i].pol, symmap) for i in v.guards()]
            forms = [f for f in forms if f is not None and 'L' in f[0]]
            if p.outcome == 'raise' and not (v.ev and v.ev[-1].kind == 'raise'):
                continue    # the driver's own exception (closed socket), not the gate
            if p.outcome == 'raise':
                A.check(forms == [({'L': 1, 'M': -1}, -1)] and p.cls == 'ValueError',
                        rule + '.frame-gate', '%s: a frame is refused exactly when it is longer '
                        'than max_http_buffer_size' % fl['name'], A.site(r),
                        key='%s-ws-gate-raise' % fl['name'], detail=v.describe(),
                        behaviour='a frame of exactly the limit is refused, or a longer one passes')
                ok_raise = True
            elif p.outcome == 'return':
                if txt(p.value) != 'ws.wait()':
                    A.violated(rule + '.frame-gate', '%s: the reader returns the frame unchanged'
                               % fl['name'], A.site(r), key='%s-ws-reader-value' % fl['name'],
                               detail=v.describe())
                if forms:
                    A.check(forms == [({'L': -1, 'M': 1}, 0)], rule + '.frame-gate',
                            '%s: a frame passes only if its length is <= max_http_buffer_size'
                            % fl['name'], A.site(r), key='%s-ws-gate-pass' % fl['name'],
                            detail=v.describe())
                    ok_ret = True
                else:
                    # no length guard: only for a falsy (None / empty) frame
                    A.check(('ws.wait()', False) in v.guard_atoms(), rule + '.frame-gate',
                            '%s: only an empty/None frame skips the length test' % fl['name'],
                            A.site(r), key='%s-ws-gate-skip' % fl['name'], detail=v.describe(),
                            behaviour='frames reach the application without a length test')
        A.check(ok_ret and ok_raise, rule + '.frame-gate', '%s: the frame reader has a length '
                'gate' % fl['name'], A.site(r), key='%s-ws-gate-missing' % fl['name'],
                behaviour='no size limit on WebSocket frames')
    n_frames = 0
    n_epi = 0
    for p in ps:
        v = PV(p)
        recv = v.calls('self.receive(_p)')
        waits = [i for i, _ in v.calls(WAITP)]
        for ri, c in recv:
            n_frames += 1
            w = [i for i in waits if i < ri]
            site = A.site(fi, v.node(ri))
            if not w:
                A.violated(rule + '.frame', '%s: receive() is fed from a frame' % fl['name'], site,
                           key='%s-ws-receive-source' % fl['name'], detail=v.describe(80))
                continue
            wi = w[-1]
            others = [j for j, _ in recv if wi < j < ri]
            A.check(not others and txt(c['p']) in (
                'packet.Packet(encoded_packet=ws.wait())',
                'packet.Packet(encoded_packet=asyncio.wait_for(asyncio.ensure_future(ws.wait()), '
                'self.server.ping_interval + self.server.ping_timeout))'),
                rule + '.frame-once', '%s: each frame is decoded and dispatched exactly once'
                % fl['name'], site, key='%s-ws-frame-once' % fl['name'], detail=v.describe(80),
                behaviour='a frame is processed twice or a different value is dispatched')
            gn = [i for i, cc, pl in guards_matching(v, '_x is None', False) if wi < i < ri]
            A.check(bool(gn), rule + '.frame-none', '%s: only a None frame (transport closed) '
                    'ends the loop; every other frame, including an empty one, is dispatched'
                    % fl['name'], site, key='%s-ws-none-test' % fl['name'], detail=v.describe(80),
                    behaviour='an empty binary message is taken for a closed connection: the '
                              'session is dropped')
            trunc = [i for i in v.guards() if wi < i < ri and
                     atom(v.ev[i].expr, v.ev[i].pol)[0] in
                     ('ws.wait()', 'asyncio.wait_for(asyncio.ensure_future(ws.wait()), '
                      'self.server.ping_interval + self.server.ping_timeout)')
                     and v.ev[i].func is fi]
            A.check(not trunc, rule + '.frame-none', '%s: the loop does not test the frame for '
                    'truthiness' % fl['name'], site, key='%s-ws-truthiness' % fl['name'],
                    detail=v.describe(80),
                    behaviour='an empty binary message is taken for a closed connection')
            gc = [i for i in v.guards('self.closed', False) if wi < i < ri]
            A.check(bool(gc), closed_rule or (rule + '.closed-check'),
                    '%s: a frame is dispatched only after testing that the session is not '
                    'closed' % fl['name'], site, key='%s-ws-closed-check' % fl['name'],
                    detail=v.describe(80),
                    behaviour='a message event is delivered after the disconnect event')
        # epilogue: every path that started the writer ends with release, join and close
        starts = v.calls('self.server.start_background_task(writer)') + \
            v.calls('asyncio.ensure_future(writer())')
        if starts and p.outcome == 'return':
            n_epi += 1
            si = starts[0][0]
            puts = [i for i, _ in v.calls('self.queue.put(None)') if i > si]
            cl = [i for i, _ in v.calls(
                'self.close(wait=False, abort=True, reason=self.server.reason.TRANSPORT_CLOSE, '
                '_strict=True)') if i > si]
            allcl = [i for i, _ in v.calls('self.close(___)') if i > si]
            A.check(len(cl) == 1 and len(allcl) == 1 and puts and puts[-1] < cl[0],
                    rule + '.epilogue', '%s: when the WebSocket ends the writer is released and '
                    'the session is closed once, without waiting, as a transport close'
                    % fl['name'], A.site(fi), key='%s-ws-epilogue' % fl['name'],
                    detail=v.describe(80),
                    behaviour='a dropped WebSocket leaves the session open (no disconnect event) '
                              'or reports the wrong reason')
    A.floor(rule, '%s dispatched frames on handler paths' % fl['name'], n_frames, 2)
    A.floor(rule, '%s handler epilogues' % fl['name'], n_epi, 2)


def ws_receive_errors(A, fl, rule):
    """C04: on WebSocket an unknown packet type is ignored (the loop goes on)."""
    fi = A.func(fl['socket'] + '._websocket_handler')
    found = False
    for n in ast.walk(fi.node):
        if isinstance(n, ast.Try) and any(
                isinstance(c, ast.Call) and match('self.receive(_p)', c) is not None
                for st in n.body for c in ast.walk(st)):
            found = True
            from sa.cfg import _handler_names
            first = None
            for h in n.handlers:
                names = _handler_names(h)
                if A.resolver.caught_by('UnknownPacketError', names):
                    first = h
                    break
            ok = first is not None and not any(isinstance(x, (ast.Break, ast.Return, ast.Raise))
                                               for st in first.body for x in ast.walk(st))
            A.check(ok, rule + '.ws-unknown', '%s: an unknown packet type on the WebSocket is '
                    'ignored and the connection continues' % fl['name'], A.site(fi, first or n),
                    key='%s-ws-unknown' % fl['name'],
                    behaviour='an undefined packet type on WebSocket ends the session')
    if not found:
        raise AnalysisError('%s: no try around receive() in %s' % (rule, fi.qualname))


def upgrade_exit_state(A, fl, rule):
    """C06.2: on every exit of the upgrade request, upgrading is False again."""
    up = A.func(fl['socket'] + '._upgrade_websocket')
    fi, sock, readers, _ = handler_paths(A, fl)
    from sa.resolve import Resolution
    R = A.resolver

    def resolve(call, f, ctx, env=None):
        r = R.resolve(call, f, ctx, env)
        if r.kind == 'prim' and r.prim == 'ws.__call__':
            r2 = Resolution('repo', funcs=[(fi, sock)], self_expr=ast.Name('self', ast.Load()),
                            text=r.text)
            r2.raises = R.raises_of(fi, sock)
            r2.args_override = {'ws': ast.Name('ws', ast.Load())}
            return r2
        return r

    def inl(ev, callee, depth):
        return callee is fi or callee in readers

    def opaque(st, f):
        if isinstance(st, (ast.For, ast.If)) and 'settimeout' in ast.unparse(st):
            return True
        # the steady-state part of the handler is irrelevant for the flag
        if f is fi and isinstance(st, ast.While) and 'self.receive' in ast.unparse(st):
            return True
        return False

    def stop(node, f):
        return False
    en = A.enum(resolve=resolve, inline=inl, opaque=opaque, max_paths=150000, loop_bound=1)
    ps = [p for p in A.paths(en, up, sock) if p.outcome != 'cut']
    n = 0
    for p in ps:
        v = PV(p)
        w = v.writes('self.upgrading')
        if not w:
            continue
        n += 1
        last = w[-1][1]
        exc = [e.cls for e in p.events if e.kind == 'exc']
        how = ('exception %s' % p.cls) if p.outcome == 'raise' else \
            ('return after %s' % exc[-1] if exc else 'return')
        A.check(last == 'False', rule + '.exit-state',
                '%s: every exit of the upgrade request (%s) leaves upgrading == False' %
                (fl['name'], 'normal or exceptional'), A.site(up, v.node(w[-1][0])),
                key='%s-upgrading-left-set' % fl['name'],
                detail=['exit: ' + how] + v.describe(70),
                behaviour='polling answers only NOOP from then on: everything queued is '
                          'undeliverable until the heartbeat times the session out')
        lastu = v.last_write('self.upgraded')
        # no window in which a session whose UPGRADE arrived is neither upgrading nor upgraded:
        # handle_get_request would let a poll drain the queue the WebSocket writer owns
        ut = [i for i, val in v.writes('self.upgraded') if val == 'True']
        if ut:
            early = [i for i, val in w if val == 'False' and i < ut[0] and
                     any(j < i and val2 == 'True' for j, val2 in w)]
            if fl['name'] == 'asyncio':
                early = [i for i in early if any(e.kind == 'call' and 'await' in
                                                 ast.unparse(e.expr) for e in v.ev[i:ut[0]])]
            A.check(not early, rule + '.switch-order', '%s: upgraded is set before upgrading is '
                    'cleared at the end of the handshake' % fl['name'],
                    A.site(up, v.node(ut[0])), key='%s-switch-order' % fl['name'],
                    detail=v.describe(70),
                    behaviour='a poll arriving between the two writes is served from the queue '
                              '(neither flag is set): packets are split between the polling '
                              'response and the WebSocket writer')
        # failure is harmless: while the handshake is in progress nothing may leave the region
        # as a protocol error, because handle_request ends the *polling* session for those
        if p.outcome == 'raise' and p.cls and \
                exc_is_subclass(p.cls, 'EngineIOError', A.resolver.exc_parents) and \
                not any(val == 'True' for _i, val in v.writes('self.upgraded')):
            xi = [i for i, e in enumerate(v.ev) if e.kind in ('exc', 'raise')]
            origin = '?'
            if xi:
                prev = [e for e in v.ev[:xi[-1] + 1] if e.kind == 'call']
                if v.ev[xi[-1]].kind == 'raise':
                    origin = 'raise'
                elif prev:
                    c = unawait(prev[-1].expr)
                    origin = txt(c.func) if isinstance(c, ast.Call) else txt(c)
                    origin = {'websocket_wait': 'ws.wait'}.get(origin, origin)
            A.violated(rule + '.failure-harmless', '%s: a failed upgrade attempt leaves the '
                       'polling session alive: no EngineIOError leaves the handshake'
                       % fl['name'], A.site(up, v.node(xi[-1]) if xi else None),
                       key='%s-handshake-kills-session:%s:%s' % (fl['name'], p.cls, origin),
                       detail=['%s raised by %s escapes the upgrade request; handle_request '
                               'treats it as a protocol error, closes the session and answers '
                               '400' % (p.cls, origin)] + v.describe(70),
                       behaviour='a probe that fails (peer gone, bad frame) destroys the '
                                 'polling session it was trying to upgrade')
    A.floor(rule, '%s upgrade-region paths that set upgrading' % fl['name'], n, 6)
    A.sample({'rule': rule + '.exit-state', 'flavour': fl['name'], 'region_paths': len(ps),
              'paths_setting_upgrading': n})
    # refusal of a second upgrade / missing driver, before the driver object exists
    en2 = A.enum()
    for p in [p for p in A.paths(en2, up, sock) if p.outcome != 'cut']:
        v = PV(p)
        ctor = v.calls("self.server._async['websocket'](___)")
        gn = ("self.server._async['websocket'] is None", True) in v.guard_atoms()
        if gn:
            # no WebSocket support in this async mode: refuse, touch nothing
            A.check(not ctor and p.outcome == 'return' and
                    txt(p.value) == 'self.server._bad_request()' and not v.writes(),
                    rule + '.no-driver', '%s: without a WebSocket driver the upgrade request is '
                    'refused with 400 and nothing else happens' % fl['name'], A.site(up),
                    key='%s-upgrade-no-driver' % fl['name'], detail=v.describe(),
                    behaviour='an async mode without WebSocket support fails the request with an '
                              'error (or every upgrade is refused although a driver exists)')
        if ctor:
            A.check(("self.server._async['websocket'] is None", False) in v.guard_atoms(),
                    rule + '.no-driver', '%s: the driver WebSocket is created only if the async '
                    'mode has one' % fl['name'], A.site(up, v.node(ctor[0][0])),
                    key='%s-upgrade-driver-guard' % fl['name'], detail=v.describe(),
                    behaviour='an async mode without WebSocket support fails the request with an '
                              'error (or every upgrade is refused although a driver exists)')
            A.check(any(i < ctor[0][0] for i in v.guards('self.upgraded', False)),
                    rule + '.already-upgraded', '%s: an upgraded session refuses a further '
                    'upgrade before a driver WebSocket is created' % fl['name'],
                    A.site(up, v.node(ctor[0][0])), key='%s-reupgrade' % fl['name'],
                    detail=v.describe(),
                    behaviour='a second upgrade attempt disturbs the established WebSocket')
            c = unawait(v.ev[ctor[0][0]].expr)
            A.check(len(c.args) >= 1 and txt(c.args[0]) == 'self._websocket_handler',
                    rule + '.handler', '%s: the driver WebSocket runs this session\'s handler'
                    % fl['name'], A.site(up, v.node(ctor[0][0])),
                    key='%s-ws-handler-arg' % fl['name'], detail=txt(c))
        if ('self.upgraded', True) in v.guard_atoms():
            A.check(p.outcome == 'raise' and not v.writes() and not v.effects(0)[1:],
                    rule + '.already-upgraded', '%s: the refusal of a second upgrade changes '
                    'nothing' % fl['name'], A.site(up), key='%s-reupgrade-effects' % fl['name'],
                    detail=v.describe())


# ---------------------------------------------------------------------------------------
# poll(): single consumer, FIFO, nothing dropped or duplicated, bounded wait
# ---------------------------------------------------------------------------------------
TIMEOUT_SUM = {'self.server.ping_interval': 1, 'self.server.ping_timeout': 1}


def _is_sum_timeout(e):
    lf = linear(e)
    return lf is not None and lf[0] == TIMEOUT_SUM and lf[1] == 0


def poll_rules(A, fl, rule, timeout_rule=None):
    fi = A.func(fl['socket'] + '.poll')
    sock = A.model.cls(fl['socket'])
    en = A.enum(loop_bound=2)
    ps = [p for p in A.paths(en, fi, sock) if p.outcome != 'cut']
    A.floor(rule, '%s poll paths' % fl['name'], len(ps), 6)
    site = A.site(fi)
    blocking = ('self.queue.get(timeout=_t)', 'asyncio.wait_for(self.queue.get(), _t)',
                'asyncio.wait_for(self.queue.get(), timeout=_t)')
    nonblock = ('self.queue.get(block=False)', 'self.queue.get_nowait()',
                'self.queue.get(False)')
    n_multi = 0
    for p in ps:
        v = PV(p)
        first = [(i, c) for pat in blocking for i, c in v.calls(pat)]
        def _next_call(i_):
            return next((e_ for e_ in v.ev[i_ + 1:] if e_.kind == 'call'), None)
        anyget = [(i, c) for i, c in v.calls('self.queue.get(___)') + v.calls('self.queue.get_nowait()')
                  if not (txt(v.ev[i].expr) == 'self.queue.get()' and
                          _next_call(i) is not None and
                          txt(_next_call(i).expr).startswith('asyncio.wait_for(self.queue.get(), '))]
        anyget = anyget + [x for x in first if x[0] not in [i for i, _ in anyget]]
        A.check(len(first) == 1 and first[0][0] == min(i for i, _ in anyget),
                (timeout_rule or rule) + '.bounded-wait',
                '%s poll(): the one blocking queue read has a timeout' % fl['name'], site,
                key='%s-poll-blocking-get' % fl['name'], detail=v.describe(),
                behaviour='a long-poll is held forever')
        if len(first) == 1:
            A.check(_is_sum_timeout(first[0][1]['t']), (timeout_rule or rule) + '.poll-timeout',
                    '%s poll(): the timeout is ping_interval + ping_timeout' % fl['name'],
                    A.site(fi, v.node(first[0][0])), key='%s-poll-timeout' % fl['name'],
                    detail=txt(first[0][1]['t']),
                    behaviour='polls of a live but idle client time out before the next PING, or '
                              'a dead poll is held too long')
        # every dequeue is accounted for with task_done before the next dequeue / exit
        gets = sorted([i for i, _ in anyget if v.ev[i].depth == 0 and
                       match('self.queue.get()', v.ev[i].expr) is None])
        gets = sorted(set(gets) | {i for i, _ in first})
        # asyncio: the inner self.queue.get() of wait_for precedes the wait_for event
        gets = [g for g in gets if not any(match(pat, v.ev[g].expr) is None and False
                                           for pat in blocking)]
        dones = [i for i, _ in v.calls('self.queue.task_done()')]
        exc_idx = [i for i, e in enumerate(v.ev) if e.kind == 'exc']
        for k, g in enumerate(gets):
            nxt = gets[k + 1] if k + 1 < len(gets) else len(v.ev)
            failed = any(g < x < nxt and not any(g < d < x for d in dones) for x in exc_idx[:1]) \
                and exc_idx and g < exc_idx[0] < nxt and not any(g < d < exc_idx[0] for d in dones)
            if failed:
                continue    # the read itself raised (queue empty): nothing was dequeued
            A.check(any(g < d < nxt for d in dones), rule + '.task-done',
                    '%s poll(): every dequeued item is marked done before the next read'
                    % fl['name'], A.site(fi, v.node(g)), key='%s-poll-task-done' % fl['name'],
                    detail=v.describe(),
                    behaviour='close(wait=True) / disconnect() blocks forever in queue.join()')
        # flow of dequeued values (non-blocking reads of the drain loop)
        nb = [(i, c) for pat in nonblock for i, c in v.calls(pat)]
        for k, (g, _) in enumerate(sorted(nb)):
            n_multi += 1
            gtxt = txt(v.ev[g].expr)
            nxt = min([i for i, _ in nb if i > g] + [len(v.ev)])
            if any(e.kind == 'exc' and g < i < nxt and
                   not any(g < d < i for d in dones) for i, e in enumerate(v.ev)):
                continue
            none_t = [i for i, c, pl in guards_matching(v, '_x is None', True)
                      if g < i < nxt and txt(c['x']) == gtxt]
            apps = [i for i, c in v.calls('_l.append(_x)') if g < i < nxt and txt(c['x']) == gtxt]
            if none_t:
                rep = [i for i, _ in v.calls('self.queue.put(None)') +
                       v.calls('self.queue.put_nowait(None)') if none_t[0] < i < nxt]
                A.check(bool(rep) and not apps, rule + '.sentinel',
                        '%s poll(): the None sentinel is put back for the next reader and ends '
                        'the batch' % fl['name'], A.site(fi, v.node(g)),
                        key='%s-poll-sentinel' % fl['name'], detail=v.describe(),
                        behaviour='the close marker is lost: the WebSocket writer / next poll '
                                  'never learns that the session ended')
            else:
                A.check(len(apps) == 1, rule + '.no-loss',
                        '%s poll(): every dequeued packet is appended to the returned batch, once'
                        % fl['name'], A.site(fi, v.node(g)), key='%s-poll-drop' % fl['name'],
                        detail=v.describe(),
                        behaviour='a packet taken from the queue is dropped or duplicated')
        # only the sentinel is ever re-queued
        for i, c in v.calls('self.queue.put(_x)') + v.calls('self.queue.put_nowait(_x)'):
            A.check(match('None', c['x']) is not None, rule + '.no-requeue',
                    '%s poll(): nothing but the None sentinel is put back' % fl['name'],
                    A.site(fi, v.node(i)), key='%s-poll-requeue' % fl['name'],
                    detail=txt(v.ev[i].expr), behaviour='a packet is delivered twice / reordered')
        for i, c in v.calls('_l.insert(___)'):
            A.violated(rule + '.order', '%s poll(): packets are appended in dequeue order'
                       % fl['name'], A.site(fi, v.node(i)), key='%s-poll-insert' % fl['name'],
                       detail=txt(v.ev[i].expr), behaviour='messages arrive out of order')
        if p.outcome == 'return':
            rv = txt(p.value)
            first_t = txt(v.ev[first[0][0]].expr) if first else '?'
            # the batch: the first dequeued packet, then every packet the drain loop took and
            # appended, in dequeue order (appends to the local list are tracked by the engine)
            appended = []
            for g, _c in sorted(nb):
                gt = txt(v.ev[g].expr)
                nx = min([i for i, _ in nb if i > g] + [len(v.ev)])
                if any(g < i < nx and txt(c['x']) == gt for i, c in v.calls('_l.append(_x)')):
                    appended.append(gt)
            okret = rv == '[]' or rv == '[%s]' % ', '.join([first_t] + appended)
            A.check(okret, rule + '.batch', '%s poll(): returns [] for the sentinel or the batch '
                    'starting with the first dequeued packet' % fl['name'], site,
                    key='%s-poll-return' % fl['name'], detail=['return ' + rv] + v.describe(),
                    behaviour='the first packet of a batch is lost or the batch is replaced')
            if rv == '[]':
                A.check(bool(guards_matching(v, '_x == [None]', True)), rule + '.batch',
                        '%s poll(): the empty batch is returned only for the sentinel' % fl['name'],
                        site, key='%s-poll-empty' % fl['name'], detail=v.describe(),
                        behaviour='packets are discarded')
        if p.outcome == 'raise':
            A.check(p.cls == 'QueueEmpty', (timeout_rule or rule) + '.timeout-error',
                    '%s poll(): a timed-out wait raises QueueEmpty' % fl['name'], site,
                    key='%s-poll-raise' % fl['name'], detail=v.describe())
    A.floor(rule, '%s poll drain-loop reads' % fl['name'], n_multi, 3)


def queue_consumers(A, fl, rule):
    """WHO-MAY: the session queue is consumed only inside poll(); poll() is called only from
    the three places the transports own."""
    smod = A.model.module(fl['smod'])
    sock = A.model.cls(fl['socket'])
    srv = A.model.cls(fl['server'])
    n_poll = 0
    anchors = A.anchors()
    mods = (fl['smod'], fl['server'].split('.')[0], 'base_server', 'base_socket')
    # helpers introduced later (not on the reference tree) count as part of their callers
    callers = {}
    with A.resolver.flow_insensitive(), A.resolver.quiet():
        for f in A.model.all_funcs():
            if f.module.name not in mods:
                continue
            ctx = sock if f.module.name in (fl['smod'], 'base_socket') else srv
            for n in own_nodes(f):
                if isinstance(n, ast.Call):
                    r = A.resolver.resolve(n, f, ctx if f.cls is not None else None)
                    if r.kind == 'repo':
                        for g, _ in r.funcs:
                            callers.setdefault(g.qualname, set()).add(f.qualname)

    def home(q, seen=()):
        """anchor functions on whose behalf the (possibly new) function q runs"""
        if q in anchors or q in seen:
            return {q}
        cs = callers.get(q)
        if not cs:
            return {q}
        out = set()
        for c in cs:
            out |= home(c, seen + (q,))
        return out
    with A.resolver.flow_insensitive():
        for f in A.model.all_funcs():
            if f.module.name not in (fl['smod'], fl['server'].split('.')[0], 'base_server',
                                     'base_socket'):
                continue
            ctx = sock if f.module.name in (fl['smod'], 'base_socket') else srv
            for n in own_nodes(f):
                if not isinstance(n, ast.Call):
                    continue
                r = A.resolver.resolve(n, f, ctx if f.cls is not None else None)
                if r.kind == 'prim' and r.prim in ('queue.get', 'queue.get_nowait'):
                    A.check(home(f.qualname) == {fl['socket'] + '.poll'},
                            rule + '.single-consumer',
                            '%s: the session queue is read only inside poll() (%s)'
                            % (fl['name'], f.qualname), A.site(f, n),
                            key='%s-queue-consumer:%s' % (fl['name'], f.qualname),
                            behaviour='two consumers split the message stream: messages are '
                                      'lost, reordered or delivered on the wrong transport')
                if r.kind == 'repo' and r.is_func(fl['socket'] + '.poll'):
                    n_poll += 1
                    allowed = {fl['socket'] + '.handle_get_request',
                               fl['socket'] + '._websocket_handler.<locals>.writer',
                               fl['server'] + '._handle_connect'}
                    A.check(home(f.qualname) <= allowed, rule + '.poll-callers',
                            '%s: poll() is called only by the polling GET, the OPEN response and '
                            'the WebSocket writer (%s)' % (fl['name'], f.qualname), A.site(f, n),
                            key='%s-poll-caller:%s' % (fl['name'], f.qualname),
                            behaviour='a further consumer takes packets away from the transport '
                                      'in use')
    A.floor(rule, '%s poll() call sites' % fl['name'], n_poll, 3)


def get_request_rules(A, fl, rule):
    """handle_get_request: upgrade header test, NOOP while upgrading/upgraded, poll otherwise,
    QueueEmpty closes the session with TRANSPORT_ERROR and is re-raised."""
    P = pconsts(A)
    fi = A.func(fl['socket'] + '.handle_get_request')
    sock = A.model.cls(fl['socket'])
    en = A.enum()
    ps = [p for p in A.paths(en, fi, sock) if p.outcome != 'cut']
    site = A.site(fi)
    n_poll = n_noop = n_up = n_qe = 0
    conn_t = "[s.strip() for s in environ.get('HTTP_CONNECTION', '').lower().split(',')]"
    tr_t = "environ.get('HTTP_UPGRADE', '').lower()"
    for p in ps:
        v = PV(p)
        polls = v.calls('self.poll()')
        ups = [i for i, e in enumerate(v.ev) if e.kind == 'call' and
               txt(e.expr).startswith("getattr(self, '_upgrade_' + ")]
        g_up = ("'upgrade' in %s" % conn_t, True) in v.guard_atoms() and \
            ('%s in self.upgrade_protocols' % tr_t, True) in v.guard_atoms()
        if ups:
            n_up += 1
            A.check(g_up and not polls, rule + '.upgrade-headers',
                    "%s: an upgrade is started only for 'Connection: upgrade' plus an Upgrade "
                    'header naming a supported protocol' % fl['name'], A.site(fi, v.node(ups[0])),
                    key='%s-get-upgrade-guard' % fl['name'], detail=v.describe(),
                    behaviour='a plain poll is treated as an upgrade request (or vice versa)')
            continue
        if polls:
            n_poll += 1
            pi = polls[0][0]
            gu = [i for i in v.guards('self.upgrading', False) if i < pi]
            gd = [i for i in v.guards('self.upgraded', False) if i < pi]
            A.check(bool(gu) and bool(gd), rule + '.noop-gate',
                    '%s: the polling GET reads the queue only if the session is neither '
                    'upgrading nor upgraded' % fl['name'], A.site(fi, v.node(pi)),
                    key='%s-get-poll-gate' % fl['name'], detail=v.describe(),
                    behaviour='a poll takes packets that belong to the WebSocket: a message is '
                              'delivered on two transports or lost')
            if any(e.kind == 'handler' for e in v.ev):
                if sum(1 for e in v.ev if e.kind == 'exc') > 1:
                    continue    # a second (summary-based) exception inside the handler
                n_qe += 1
                cl = v.calls('self.close(wait=False, reason=self.server.reason.TRANSPORT_ERROR, '
                             '_strict=True)') + \
                    v.calls('self.close(wait=False, abort=False, '
                            'reason=self.server.reason.TRANSPORT_ERROR, _strict=True)')
                A.check(len(cl) == 1 and p.outcome == 'raise' and p.cls == 'QueueEmpty',
                        rule + '.poll-timeout', '%s: a poll that times out closes the session '
                        '(transport error, without waiting) and fails the request' % fl['name'],
                        site, key='%s-get-queue-empty' % fl['name'], detail=v.describe(),
                        behaviour='an abandoned polling session is held forever or reported with '
                                  'the wrong reason')
            else:
                A.check(p.outcome != 'return' or txt(p.value) == 'self.poll()',
                        rule + '.poll-result', '%s: the GET returns exactly what poll() returned'
                        % fl['name'], site, key='%s-get-poll-result' % fl['name'],
                        detail=v.describe(), behaviour='polled packets are lost or altered')
            continue
        if p.outcome == 'return':
            n_noop += 1
            rv = unawait(p.value)
            ok = isinstance(rv, ast.List) and len(rv.elts) == 1
            if ok:
                pc = packet_ctor(A, fi, rv.elts[0])
                ok = pc is not None and pc[0] == P['NOOP'] and pc[1] is None
            A.check(ok and (('self.upgrading', True) in v.guard_atoms() or
                            ('self.upgraded', True) in v.guard_atoms()),
                    rule + '.noop', '%s: while upgrading or upgraded a polling GET gets exactly '
                    'one NOOP and nothing from the queue' % fl['name'], site,
                    key='%s-get-noop' % fl['name'], detail=v.describe(),
                    behaviour='polling reads during/after an upgrade return something else than '
                              'NOOP')
    A.floor(rule, '%s GET poll paths' % fl['name'], n_poll, 2)
    A.floor(rule, '%s GET noop paths' % fl['name'], n_noop, 2)
    A.floor(rule, '%s GET upgrade paths' % fl['name'], n_up, 1)
    A.floor(rule, '%s GET queue-empty paths' % fl['name'], n_qe, 1)
    ups_attr, owner = A.model.class_attr(sock, 'upgrade_protocols')
    A.check(ups_attr is not None and ast.literal_eval(ups_attr) == ['websocket'],
            rule + '.protocols', 'the only upgrade protocol is websocket', site,
            key='upgrade-protocols', detail=txt(ups_attr))


def writer_rules(A, fl, rule):
    fi = A.func(fl['socket'] + '._websocket_handler.<locals>.writer')
    sock = A.model.cls(fl['socket'])
    en = A.enum(loop_bound=2, max_paths=40000)
    ps = [p for p in A.paths(en, fi, sock) if p.outcome != 'cut']
    n = 0
    for p in ps:
        v = PV(p)
        polls = [i for i, _ in v.calls('self.poll()')]
        sends = v.calls('ws.send(_x)')
        for si, c in sends:
            n += 1
            pl = [i for i in polls if i < si]
            m_ = match('_elem(self.poll(), _k).encode()', c['x'])
            A.check(bool(pl) and m_ is not None, rule + '.writer',
                    '%s writer: every frame is one packet of the last polled batch, encoded for '
                    'the binary-capable channel' % fl['name'], A.site(fi, v.node(si)),
                    key='%s-writer-send' % fl['name'], detail=txt(v.ev[si].expr),
                    behaviour='binary data goes out base64-encoded, or something other than the '
                              'polled packets is sent')
        # per batch: elements in order 0,1,... each once
        for bi, pi in enumerate(polls):
            nxt = polls[bi + 1] if bi + 1 < len(polls) else len(v.ev)
            ks = [match('_elem(self.poll(), _k).encode()', c['x']) for si, c in sends
                  if pi < si < nxt]
            ks = [ast.literal_eval(k['k']) for k in ks if k]
            A.check(ks == list(range(len(ks))), rule + '.writer-order',
                    '%s writer: the packets of a batch are sent once each, in batch order'
                    % fl['name'], A.site(fi), key='%s-writer-order' % fl['name'],
                    detail=v.describe(60), behaviour='messages are duplicated or reordered on the '
                                                     'WebSocket')
            its = [txt(v.ev[i].expr) for i in v.kinds('iter') if pi < i < nxt and v.ev[i].pol]
            A.check(all(t == 'self.poll()' for t in its), rule + '.writer-order',
                    '%s writer iterates the batch itself' % fl['name'], A.site(fi),
                    key='%s-writer-iter' % fl['name'], detail=its)
        # a polled batch that is not empty is sent; the writer ends on an empty batch (or a
        # failed poll / send), never on a non-empty one
        for bi, pi in enumerate(polls):
            nxt = polls[bi + 1] if bi + 1 < len(polls) else len(v.ev)
            seg = v.ev[pi + 1:nxt]
            if any(e.kind in ('exc', 'handler') for e in seg[:2]):
                continue
            nonempty = any(e.kind == 'guard' and atom(e.expr, e.pol) == ('self.poll()', True)
                           for e in seg)
            sent = any(e.kind == 'call' and txt(e.expr).startswith('ws.send(') for e in seg)
            entered = any(e.kind == 'iter' and txt(e.expr) == 'self.poll()' for e in seg)
            if nonempty:
                A.check(sent or entered or any(e.kind in ('exc', 'handler') for e in seg),
                        rule + '.writer', '%s writer: a non-empty batch is sent' % fl['name'],
                        A.site(fi, v.node(pi)), key='%s-writer-drops-batch' % fl['name'],
                        detail=v.describe(40),
                        behaviour='the writer stops at the first real batch: nothing is ever '
                                  'delivered over the WebSocket')
        if p.outcome == 'return':
            cl = v.calls('ws.close()')
            A.check(len(cl) == 1 and (not sends or cl[0][0] > sends[-1][0]), rule + '.writer-close',
                    '%s writer closes the WebSocket when it ends' % fl['name'], A.site(fi),
                    key='%s-writer-close' % fl['name'], detail=v.describe(60),
                    behaviour='the read loop is never woken: the session stays open')
    A.floor(rule, '%s writer send sites on paths' % fl['name'], n, 2)


# ---------------------------------------------------------------------------------------
# heartbeat: send(), check_ping_timeout(), _send_ping(), schedule_ping()
# ---------------------------------------------------------------------------------------
def send_rules(A, fl, rule):
    fi = A.func(fl['socket'] + '.send')
    sock = A.model.cls(fl['socket'])
    en = A.enum()
    ps = [p for p in A.paths(en, fi, sock) if p.outcome != 'cut' and
          not any(e.kind == 'exc' for e in p.events)]
    n_put = 0
    for p in ps:
        v = PV(p)
        chk = v.calls('self.check_ping_timeout()')
        puts = v.calls('self.queue.put(_x)') + v.calls('self.queue.put_nowait(_x)')
        A.check(len(chk) == 1, rule + '.send-checks-timeout', '%s send(): the heartbeat deadline '
                'is evaluated on every send' % fl['name'], A.site(fi),
                key='%s-send-check' % fl['name'], detail=v.describe(),
                behaviour='a dead peer is not detected at the first send after the deadline')
        alive = ('self.check_ping_timeout()', True) in v.guard_atoms()
        if puts:
            n_put += 1
            A.check(alive and len(puts) == 1 and txt(puts[0][1]['x']) == 'pkt' and
                    chk and chk[0][0] < puts[0][0], rule + '.send-enqueue',
                    '%s send(): the packet is enqueued once, after the deadline check passed'
                    % fl['name'], A.site(fi, v.node(puts[0][0])), key='%s-send-put' % fl['name'],
                    detail=v.describe(), behaviour='a packet is queued twice, altered, or queued '
                                                   'for a session that just timed out')
        else:
            A.check(not alive, rule + '.send-enqueue', '%s send(): a live session always gets '
                    'the packet enqueued' % fl['name'], A.site(fi),
                    key='%s-send-drop' % fl['name'], detail=v.describe(),
                    behaviour='messages to a live session are silently dropped')
    A.floor(rule, '%s send() enqueue paths' % fl['name'], n_put, 1)


def ping_timeout_rules(A, fl, rule):
    fi = A.func(fl['socket'] + '.check_ping_timeout')
    sock = A.model.cls(fl['socket'])
    en = A.enum()
    ps = [p for p in A.paths(en, fi, sock) if p.outcome != 'cut' and
          not any(e.kind == 'exc' for e in p.events)]
    sym = {'time.time()': ('now', 0), 'self.last_ping': ('last', 0),
           'self.server.ping_timeout': ('T', 0), 'self.server.ping_interval': ('I', 0)}
    n_close = n_ok = 0
    for p in ps:
        v = PV(p)
        if ('self.closed', True) in v.guard_atoms():
            A.check(p.outcome == 'raise' and p.cls == 'SocketIsClosedError' and not v.effects(0)[1:],
                    rule + '.closed-raises', '%s check_ping_timeout(): a closed session raises '
                    'SocketIsClosedError' % fl['name'], A.site(fi),
                    key='%s-cpt-closed' % fl['name'], detail=v.describe(),
                    behaviour='packets are queued for a closed session')
            continue
        forms = []
        for i in v.guards():
            e = v.ev[i]
            lf = ordering(e.expr, e.pol)
            if lf is not None and 'time.time()' in lf:
                forms.append(lf)
        cl = v.calls('self.close(___)')
        if cl:
            n_close += 1
            ok = len(cl) == 1 and match(
                'self.close(wait=False, abort=False, reason=self.server.reason.PING_TIMEOUT, '
                '_strict=True)', v.ev[cl[0][0]].expr) is not None
            A.check(ok, rule + '.timeout-close', '%s: a heartbeat timeout closes the session once, '
                    'without waiting, telling the peer (abort=False), reason ping timeout'
                    % fl['name'], A.site(fi, v.node(cl[0][0])),
                    key='%s-cpt-close-args' % fl['name'], detail=v.describe(),
                    behaviour='wrong disconnect reason, or the worker blocks in close()')
            A.check(('self.last_ping', True) in v.guard_atoms() and
                    forms == ['-self.last_ping -self.server.ping_timeout +time.time() > 0'],
                    rule + '.deadline', '%s: the session is timed out iff a PING is outstanding '
                    'and now - last_ping > ping_timeout' % fl['name'],
                    A.site(fi), key='%s-cpt-predicate' % fl['name'],
                    detail=['forms: %s' % forms] + v.describe(),
                    behaviour='live peers are dropped (deadline too short / compared with the '
                              'wrong setting) or dead peers are kept')
            A.check(p.outcome == 'return' and txt(p.value) == 'False', rule + '.timeout-close',
                    '%s check_ping_timeout() reports the timeout to send()' % fl['name'],
                    A.site(fi), key='%s-cpt-return-false' % fl['name'], detail=v.describe())
        else:
            n_ok += 1
            A.check(p.outcome == 'return' and txt(p.value) == 'True' and
                    (not forms or forms == ['+self.last_ping +self.server.ping_timeout '
                                            '-time.time() >= 0']),
                    rule + '.deadline', '%s: within the deadline (or with no PING outstanding) the '
                    'session stays open' % fl['name'], A.site(fi),
                    key='%s-cpt-alive' % fl['name'], detail=['forms: %s' % forms] + v.describe(),
                    behaviour='a peer whose PONG arrives in time is disconnected')
    A.floor(rule, '%s check_ping_timeout closing paths' % fl['name'], n_close, 1)
    A.floor(rule, '%s check_ping_timeout passing paths' % fl['name'], n_ok, 2)


def ping_task_rules(A, fl, rule):
    P = pconsts(A)
    sock = A.model.cls(fl['socket'])
    sp = A.func(fl['socket'] + '.schedule_ping')
    en = A.enum()
    for p in A.paths(en, sp, sock):
        v = PV(p)
        A.check(len(v.effects(0)) == 1 and bool(v.calls(
            'self.server.start_background_task(self._send_ping)')), rule + '.arm',
            '%s schedule_ping() starts exactly one _send_ping task' % fl['name'], A.site(sp),
            key='%s-schedule-ping' % fl['name'], detail=v.describe(),
            behaviour='no PING is ever sent (or several at once)')
    fi = A.func(fl['socket'] + '._send_ping')
    ps = [p for p in A.paths(A.enum(), fi, sock) if p.outcome != 'cut' and
          not any(e.kind == 'exc' for e in p.events)]
    n_ping = 0
    for p in ps:
        v = PV(p)
        sleeps = v.calls('self.server.sleep(_t)') + v.calls('asyncio.sleep(_t)')
        A.check(len(sleeps) == 1 and txt(sleeps[0][1]['t']) == 'self.server.ping_interval',
                rule + '.interval', '%s _send_ping sleeps exactly ping_interval before the PING'
                % fl['name'], A.site(fi), key='%s-ping-sleep' % fl['name'], detail=v.describe(),
                behaviour='PINGs are emitted at the wrong period')
        clear = [i for i, val in v.writes('self.last_ping') if val == 'None']
        A.check(bool(clear) and sleeps and clear[0] < sleeps[0][0], rule + '.clear',
                '%s _send_ping clears the outstanding PING (last_ping) before sleeping'
                % fl['name'], A.site(fi), key='%s-ping-clear' % fl['name'], detail=v.describe(),
                behaviour='a PONG does not cancel the deadline: a live peer is timed out')
        sends = v.calls('self.send(_p)')
        dead = ('self.closing', True) in v.guard_atoms() or ('self.closed', True) in v.guard_atoms()
        if dead:
            A.check(not sends, rule + '.no-ping-after-close', '%s: no PING for a closing/closed '
                    'session' % fl['name'], A.site(fi), key='%s-ping-dead' % fl['name'],
                    detail=v.describe())
            continue
        n_ping += 1
        stamp = [i for i, val in v.writes('self.last_ping') if val == 'time.time()']
        ok = len(sends) == 1 and stamp and stamp[-1] < sends[0][0] and sleeps and \
            sleeps[0][0] < stamp[-1]
        if ok:
            pc = packet_ctor(A, fi, sends[0][1]['p'])
            ok = pc is not None and pc[0] == P['PING'] and pc[1] is None
        extra = [a for a, pl in v.guard_atoms() if a not in ('self.closing', 'self.closed')]
        A.check(bool(ok) and not extra, rule + '.ping',
                '%s: on every path where the session is neither closing nor closed the PING is '
                'stamped with the clock and sent after the sleep' % fl['name'], A.site(fi),
                key='%s-ping-sent' % fl['name'],
                detail=(['extra conditions: %s' % extra] if extra else []) + v.describe(),
                behaviour='the heartbeat stops (no PING, no deadline): a silent peer is never '
                          'dropped for ping timeout')
    A.floor(rule, '%s _send_ping pinging paths' % fl['name'], n_ping, 1)


# ---------------------------------------------------------------------------------------
# WHO-MAY rules: close sites, event sites, flag writers, table writers
# ---------------------------------------------------------------------------------------
def _homes(A, mods, ctx_of):
    """callers map and home() over the given modules (helpers introduced after the reference
    tree are attributed to the anchor functions they are reachable from)."""
    anchors = A.anchors()
    callers = {}
    with A.resolver.flow_insensitive(), A.resolver.quiet():
        for f in A.model.all_funcs():
            if f.module.name not in mods:
                continue
            for n in own_nodes(f):
                if isinstance(n, ast.Call):
                    r = A.resolver.resolve(n, f, ctx_of(f))
                    if r.kind == 'repo':
                        for g, _ in r.funcs:
                            callers.setdefault(g.qualname, set()).add(f.qualname)

    def home(q, seen=()):
        if q in anchors or q in seen:
            return {q}
        cs = callers.get(q)
        if not cs:
            return {q}
        out = set()
        for c in cs:
            out |= home(c, seen + (q,))
        return out
    return home


def who_may_rules(A, fl, rule, parts=('close', 'events', 'flags', 'table')):
    name = fl['name']
    sock = A.model.cls(fl['socket'])
    srv = A.model.cls(fl['server'])
    smod, vmod = fl['smod'], fl['server'].split('.')[0]
    mods = (smod, vmod, 'base_server', 'base_socket')

    def ctx_of(f):
        if f.cls is None:
            return None
        return sock if f.module.name in (smod, 'base_socket') else srv
    home = _homes(A, mods, ctx_of)
    S, V = fl['socket'], fl['server']
    CLOSE_TABLE = {
        S + '.receive': ('self.server.reason.CLIENT_DISCONNECT', 'False', 'True'),
        S + '.check_ping_timeout': ('self.server.reason.PING_TIMEOUT', 'False', 'False'),
        S + '.handle_get_request': ('self.server.reason.TRANSPORT_ERROR', 'False', None),
        S + '._websocket_handler': ('self.server.reason.TRANSPORT_CLOSE', 'False', 'True'),
        V + '.disconnect': ('self.reason.SERVER_DISCONNECT', None, None),
        V + '.handle_request': ('self.reason.SERVER_DISCONNECT', 'False', None),
    }
    EVENT_HOME = {'disconnect': S + '.close', 'message': S + '.receive',
                  'connect': V + '._handle_connect'}
    FLAG_WRITERS = {
        'closed': {S + '.close', 'base_socket.BaseSocket.__init__'},
        'closing': {S + '.close', 'base_socket.BaseSocket.__init__'},
        'upgrading': {S + '._websocket_handler', S + '._upgrade_websocket',
                      'base_socket.BaseSocket.__init__'},
        'upgraded': {S + '._websocket_handler', 'base_socket.BaseSocket.__init__'},
        'connected': {S + '._websocket_handler', V + '._handle_connect',
                      'base_socket.BaseSocket.__init__'},
    }
    TABLE_WRITERS = {V + '._handle_connect', 'base_server.BaseServer._get_socket',
                     V + '.handle_request', V + '.disconnect', V + '._service_task',
                     'base_server.BaseServer.__init__'}
    n_close = n_ev = 0
    with A.resolver.flow_insensitive(), A.resolver.quiet():
        for f in A.model.all_funcs():
            if f.module.name not in mods:
                continue
            hq = home(f.qualname)
            for n in own_nodes(f):
                if isinstance(n, ast.Call):
                    r = A.resolver.resolve(n, f, ctx_of(f))
                    if 'close' in parts and r.kind == 'repo' and r.is_func(S + '.close'):
                        n_close += 1
                        defs1 = {k_: v_[0] for k_, v_ in A.resolver.local_defs(f).items()
                                 if len(v_) == 1 and not any(
                                     isinstance(x, ast.Name) and x.id == k_ for x in ast.walk(v_[0]))}
                        from sa.expr import subst as _subst
                        kw = {k.arg: txt(_subst(k.value, defs1)) for k in n.keywords}
                        for h in hq:
                            ent = CLOSE_TABLE.get(h)
                            if ent is None:
                                A.violated(rule + '.close-sites', '%s: every place that ends a '
                                           'session is one of the classified causes (%s closes '
                                           'a session)' % (name, f.qualname), A.site(f, n),
                                           key='%s-close-site:%s' % (name, h), detail=txt(n),
                                           behaviour='a session is ended for an unclassified '
                                                     'cause / with an arbitrary reason')
                                continue
                            ok = kw.get('reason') == ent[0] and \
                                (ent[1] is None or kw.get('wait') == ent[1]) and \
                                (ent[2] is None or kw.get('abort', 'False') == ent[2]) and \
                                not n.args
                            A.check(ok, rule + '.close-reason', '%s: %s ends the session with '
                                    'reason %s%s' % (name, h.split('.')[-1], ent[0].split('.')[-1],
                                                     ', without waiting' if ent[1] == 'False' else ''),
                                    A.site(f, n), key='%s-close-reason:%s' % (name, h),
                                    detail=txt(n),
                                    behaviour='the disconnect reason does not name the cause, '
                                              'or the caller blocks in close()')
                    if 'events' in parts and r.kind == 'repo' and r.is_func(V + '._trigger_event') \
                            and n.args and isinstance(n.args[0], ast.Constant):
                        n_ev += 1
                        evn = n.args[0].value
                        A.check(evn in EVENT_HOME and hq == {EVENT_HOME[evn]}, rule + '.event-sites',
                                "%s: the '%s' event is fired only from %s" %
                                (name, evn, EVENT_HOME.get(evn, '?').split('.', 1)[-1]),
                                A.site(f, n), key='%s-event-site:%s:%s' % (name, evn, sorted(hq)[0]),
                                detail=txt(n),
                                behaviour='an event is delivered twice / from a second place that '
                                          'bypasses the once-only guard')
                tgts = []
                if isinstance(n, (ast.Assign, ast.AugAssign)):
                    tgts = n.targets if isinstance(n, ast.Assign) else [n.target]
                elif isinstance(n, ast.Delete):
                    tgts = n.targets
                for t in tgts:
                    if 'flags' in parts and isinstance(t, ast.Attribute) and \
                            t.attr in FLAG_WRITERS:
                        A.check(hq <= FLAG_WRITERS[t.attr], rule + '.flag-writers',
                                '%s: session flag %s is written only by %s' %
                                (name, t.attr, ', '.join(sorted(x.split('.', 1)[-1]
                                                                 for x in FLAG_WRITERS[t.attr]))),
                                A.site(f, n), key='%s-flag-writer:%s:%s' % (name, t.attr,
                                                                          sorted(hq)[0]),
                                detail=ast.unparse(n),
                                behaviour='the transport / liveness state of a session is changed '
                                          'outside its state machine')
                    base = t.value if isinstance(t, ast.Subscript) else t
                    if 'table' in parts and txt(base) == 'self.sockets' and f.module.name != smod:
                        A.check(hq <= TABLE_WRITERS, rule + '.table-writers',
                                '%s: the session table is modified only by connect, lookup '
                                'reaping, request reaping, disconnect and the sweep (%s)'
                                % (name, f.qualname), A.site(f, n),
                                key='%s-table-writer:%s' % (name, sorted(hq)[0]),
                                detail=ast.unparse(n),
                                behaviour='sessions appear in / vanish from the table outside '
                                          'the lifecycle')
    if 'close' in parts:
        A.floor(rule, '%s close() call sites' % name, n_close, 6)
    if 'events' in parts:
        A.floor(rule, '%s _trigger_event call sites' % name, n_ev, 3)


def poll_cancel_rule(A, fl, rule):
    """asyncio: a pending poll whose request task is cancelled (the client went away and the
    web server cancels the handler) ends like a poll that timed out: with QueueEmpty, so that
    handle_get_request closes the session.  The handler around the blocking read catches both
    asyncio.TimeoutError and asyncio.CancelledError."""
    if fl['name'] != 'asyncio':
        return
    fi = A.func(fl['socket'] + '.poll')
    sock = A.model.cls(fl['socket'])
    ps = [p for p in A.paths(A.enum(loop_bound=1), fi, sock) if p.outcome != 'cut']
    caught = set()
    n = 0
    for p in ps:
        v = PV(p)
        w = [i for i, _ in v.calls('asyncio.wait_for(___)')]
        if not w:
            continue
        hs = [i for i, e in enumerate(v.ev) if e.kind == 'handler' and i > w[0]]
        if not hs or any(e.kind == 'call' and e.depth == 0 for e in v.ev[w[0] + 1:hs[0]]):
            continue
        n += 1
        if p.outcome == 'raise' and 'QueueEmpty' in str(p.cls or ''):
            for nm in str(v.ev[hs[0]].cls).split('|'):
                caught.add(nm.split('.')[-1])
    A.floor(rule, 'asyncio poll paths through the handler of the blocking read', n, 1)
    for want in ('TimeoutError', 'CancelledError'):
        A.check(want in caught or 'BaseException' in caught or '*' in caught,
                rule + '.poll-cancel', 'asyncio poll(): %s of the blocking read becomes QueueEmpty'
                % want, A.site(fi), key='asyncio-poll-catches:%s' % want, detail=sorted(caught),
                behaviour='a poll that %s leaves the session in the table: the dead client '
                          'stays until a ping timeout' % ('is cancelled (client went away)'
                                                          if want == 'CancelledError'
                                                          else 'timed out'))


def ping_callers_rule(A, fl, rule):
    """WHO-MAY arm the heartbeat: schedule_ping() is called when the session is opened
    (_handle_connect) and when a PONG is received (receive), nowhere else.  A second timer
    started elsewhere emits a PING that no PONG asked for and, by clearing last_ping, disarms
    a deadline that is running."""
    name = fl['name']
    mods = {fl['server'].split('.')[0], fl['socket'].split('.')[0], 'base_server', 'base_socket'}
    funcs = [f for f in A.model.all_funcs() if f.module.name in mods]
    anchors = A.anchors()
    allowed = {fl['server'] + '._handle_connect', fl['socket'] + '.receive'}

    def callers_of(attr):
        out = []
        for f in funcs:
            for n in ast.walk(f.node):
                if isinstance(n, ast.Call) and isinstance(n.func, ast.Attribute) and \
                        n.func.attr == attr and f.name != attr:
                    out.append((f, n))
                elif isinstance(n, ast.Attribute) and n.attr == attr and \
                        isinstance(n.ctx, ast.Load) and f.name != attr and \
                        attr != 'schedule_ping' and not any(
                            isinstance(c, ast.Call) and c.func is n for c in ast.walk(f.node)):
                    out.append((f, n))
        return out
    n_sites = 0
    seen = set()
    work = [('schedule_ping', None)]
    while work:
        attr, via = work.pop()
        for f, node in callers_of(attr):
            if (f.qualname, attr) in seen:
                continue
            seen.add((f.qualname, attr))
            if f.qualname in anchors or f.name.startswith('__'):
                n_sites += 1
                A.check(f.qualname in allowed, rule + '.arm-sites',
                        '%s: the heartbeat timer is started only on OPEN and on PONG' % name,
                        A.site(f, node), key='%s-ping-armed-by:%s' % (name, f.name),
                        detail=['%s calls %s()%s' % (f.qualname, attr,
                                                     ' (which starts the timer)' if via else '')],
                        behaviour='a PING is emitted that is not ping_interval after the OPEN or '
                                  'a PONG, and the second timer clears last_ping: the deadline '
                                  'of an outstanding PING is disarmed')
            else:
                work.append((f.name, attr))
    A.floor(rule, '%s call sites of schedule_ping' % name, n_sites, 2)
