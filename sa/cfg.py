"""Statement-level control-flow graphs with lowered conditions and exception edges.

Node kinds
  entry / exit (normal return) / raise (exception leaves the function)
  stmt     simple statement (Assign, AugAssign, AnnAssign, Expr, Delete, Pass, Import,
           Global, Nonlocal, Assert, nested FunctionDef/ClassDef as a binding)
  test     one condition atom (BoolOp / Not are lowered into several test nodes);
           successors labelled 'T' and 'F'
  iter     ``for`` header: successors 'loop' (next element bound) and 'done'
  with     ``with`` entry (context expression evaluated, target bound)
  return   ``return`` statement (single successor: exit, possibly via finally copies)
  raisestmt ``raise`` statement
  handler  entry of an ``except`` clause
  join     no-op merge point

Exception edges (label 'exc'): every node that contains a call, subscript, attribute access,
await or binary operation gets an edge to the handlers that may catch an exception raised
there: the handlers of each enclosing ``try`` from the innermost outwards, stopping after a
``try`` with a catch-all handler; if none stops it, an edge to the ``raise`` exit.  These
edges over-approximate; analyses choose which ones to follow (see paths.py: only edges from
nodes whose calls have an explicit-raise summary lead out of the function).
``raise X`` statements get 'exc' edges to the first matching handler (by class name, using
the exception hierarchy supplied by the caller) or outwards.
"""
import ast

from .model import AnalysisError

CATCH_ALL = {'BaseException', 'Exception'}


class Node:
    __slots__ = ('id', 'kind', 'ast', 'succ', 'pred', 'lineno', 'stmt', 'origin')

    def __init__(self, id, kind, a=None, stmt=None):
        self.id = id
        self.kind = kind
        self.ast = a
        self.succ = []      # list of (Node, label)
        self.pred = []      # list of (Node, label)
        self.stmt = stmt    # the enclosing statement (for tests: the If/While; for iter: the For)
        self.lineno = getattr(a, 'lineno', None) or getattr(stmt, 'lineno', None)
        self.origin = None

    def __repr__(self):
        t = ''
        if self.ast is not None and self.kind not in ('handler',):
            try:
                t = ast.unparse(self.ast).split('\n')[0][:60]
            except Exception:
                t = '?'
        return '<%d %s L%s %s>' % (self.id, self.kind, self.lineno, t)


class CFG:
    def __init__(self, func_node):
        self.func = func_node
        self.nodes = []
        self.entry = self.new('entry')
        self.exit = self.new('exit')
        self.raise_exit = self.new('raise')

    def new(self, kind, a=None, stmt=None):
        n = Node(len(self.nodes), kind, a, stmt)
        self.nodes.append(n)
        return n

    def edge(self, a, b, label='next'):
        for (t, l) in a.succ:
            if t is b and l == label:
                return
        a.succ.append((b, label))
        b.pred.append((a, label))

    # -- queries -----------------------------------------------------------
    def nodes_of_kind(self, *kinds):
        return [n for n in self.nodes if n.kind in kinds]

    def reachable(self, start=None, follow=None):
        start = start or self.entry
        seen = {start.id}
        stack = [start]
        while stack:
            n = stack.pop()
            for (t, l) in n.succ:
                if follow is not None and not follow(n, t, l):
                    continue
                if t.id not in seen:
                    seen.add(t.id)
                    stack.append(t)
        return seen

    def dominators(self, follow=None):
        """dom[n.id] = set of node ids dominating n (reachable nodes only)."""
        reach = self.reachable(follow=follow)
        order = [n for n in self.nodes if n.id in reach]
        allset = set(reach)
        dom = {n.id: set(allset) for n in order}
        dom[self.entry.id] = {self.entry.id}
        changed = True
        while changed:
            changed = False
            for n in order:
                if n is self.entry:
                    continue
                preds = [p for (p, l) in n.pred if p.id in reach and
                         (follow is None or follow(p, n, l))]
                if not preds:
                    continue
                new = set.intersection(*[dom[p.id] for p in preds]) | {n.id}
                if new != dom[n.id]:
                    dom[n.id] = new
                    changed = True
        return dom

    def edge_dominators(self, follow=None):
        """For each node id, the set of (test_node_id, label) branch edges that every path
        from entry to the node must take."""
        reach = self.reachable(follow=follow)
        order = [n for n in self.nodes if n.id in reach]
        TOP = None
        ed = {n.id: TOP for n in order}
        ed[self.entry.id] = frozenset()
        changed = True
        while changed:
            changed = False
            for n in order:
                if n is self.entry:
                    continue
                acc = TOP
                for (p, l) in n.pred:
                    if p.id not in reach or (follow is not None and not follow(p, n, l)):
                        continue
                    if ed[p.id] is TOP:
                        continue
                    s = ed[p.id]
                    if p.kind in ('test', 'iter') and l in ('T', 'F', 'loop', 'done'):
                        s = s | {(p.id, l)}
                    acc = s if acc is TOP else (acc & s)
                if acc is not TOP and acc != ed[n.id]:
                    ed[n.id] = frozenset(acc)
                    changed = True
        return {k: (v if v is not None else frozenset()) for k, v in ed.items()}


def _handler_names(h):
    """Class names (last attribute segment) an except clause catches; None = bare except."""
    if h.type is None:
        return None
    ts = h.type.elts if isinstance(h.type, ast.Tuple) else [h.type]
    out = []
    for t in ts:
        if isinstance(t, ast.Attribute):
            out.append(t.attr)
        elif isinstance(t, ast.Name):
            out.append(t.id)
        else:
            out.append(ast.unparse(t))
    return out


def may_raise_implicitly(node):
    """Does evaluating this AST possibly raise (call, subscript, attribute, await, binop)?"""
    if node is None:
        return False
    for n in ast.walk(node):
        if isinstance(n, (ast.Call, ast.Subscript, ast.Await, ast.BinOp, ast.Attribute,
                          ast.Compare, ast.Delete)):
            return True
    return False


class _Frame:
    pass


class _Loop(_Frame):
    def __init__(self, cont, brk):
        self.cont = cont
        self.brk = brk


class _Try(_Frame):
    def __init__(self, handlers):
        self.handlers = handlers   # list of (handler_node, names|None)


class _Finally(_Frame):
    def __init__(self, body):
        self.body = body
        self.cache = {}


def has_escaping_jump(st):
    """Does compound statement st contain a return/raise, or a break/continue that targets a
    loop outside st?  (nested function bodies are not entered)"""
    def rec(n, in_loop):
        for ch in ast.iter_child_nodes(n):
            if isinstance(ch, (ast.FunctionDef, ast.AsyncFunctionDef, ast.ClassDef, ast.Lambda)):
                continue
            if isinstance(ch, (ast.Return, ast.Raise)):
                return True
            if isinstance(ch, (ast.Break, ast.Continue)) and not in_loop:
                return True
            if rec(ch, in_loop or isinstance(ch, (ast.For, ast.AsyncFor, ast.While))):
                return True
        return False
    return rec(st, isinstance(st, (ast.For, ast.AsyncFor, ast.While)))


class Builder:
    def __init__(self, func_node, exc_parents=None, opaque=None):
        """exc_parents: dict class name -> parent class name (exception hierarchy).
        opaque(stmt) -> bool: compound statements to be kept as one 'opaque' node (slicing);
        only honoured when the statement has no escaping jump."""
        self.cfg = CFG(func_node)
        self.exc_parents = exc_parents or {}
        self.opaque = opaque
        self.frames = []

    # -- exception class matching -----------------------------------------
    def _is_subclass(self, name, base):
        seen = set()
        while name is not None and name not in seen:
            if name == base:
                return True
            seen.add(name)
            name = self.exc_parents.get(name)
        return False

    def _catches(self, names, raised):
        """True / False / None(unknown) whether handler with `names` catches class `raised`."""
        if names is None:
            return True
        if raised is None:
            return None
        for n in names:
            if n in CATCH_ALL and not self._is_subclass(raised, 'BaseException-only'):
                # Exception catches everything we model except KeyboardInterrupt & co
                if n == 'BaseException' or raised not in ('KeyboardInterrupt', 'SystemExit',
                                                          'GeneratorExit', 'CancelledError'):
                    return True
            if self._is_subclass(raised, n):
                return True
        return False

    # -- routing of jumps through finally/try frames ------------------------
    def _route_exc(self, src, raised=None, depth=None, label='exc'):
        """Add exception edges from src outward starting at frame index depth-1."""
        frames = self.frames if depth is None else self.frames[:depth]
        i = len(frames) - 1
        cur = src
        lab = label
        while i >= 0:
            fr = frames[i]
            if isinstance(fr, _Try):
                stop = False
                for (hn, names) in fr.handlers:
                    c = self._catches(names, raised)
                    if c is True:
                        self.cfg.edge(cur, hn, lab)
                        stop = True
                        break
                    if c is None:
                        self.cfg.edge(cur, hn, lab)
                        if names is None or any(n in CATCH_ALL for n in names):
                            stop = True
                            break
                if stop:
                    return
            elif isinstance(fr, _Finally):
                cur = self._finally_copy(fr, i, ('exc', raised), cur, lab)
                lab = 'next'
                if cur is None:
                    return
            i -= 1
        self.cfg.edge(cur, self.cfg.raise_exit, lab)

    def _finally_copy(self, fr, idx, key, src, label):
        """Route src through a copy of the finally body built in the context outside it.
        Returns the node from which routing continues (the copy's tail) or None if the copy
        was already connected for this key."""
        if key in fr.cache:
            entry, tail, fresh = fr.cache[key]
            self.cfg.edge(src, entry, label)
            return None
        entry = self.cfg.new('join')
        saved = self.frames
        self.frames = saved[:idx]
        tails = self._block(fr.body, [(entry, 'next')])
        self.frames = saved
        tail = self.cfg.new('join')
        for (t, l) in tails:
            self.cfg.edge(t, tail, l)
        fr.cache[key] = (entry, tail, True)
        self.cfg.edge(src, entry, label)
        return tail

    def _route_jump(self, src, kind):
        """kind in 'return','break','continue'."""
        i = len(self.frames) - 1
        cur = src
        lab = 'next'
        while i >= 0:
            fr = self.frames[i]
            if isinstance(fr, _Finally):
                nxt = self._finally_copy(fr, i, (kind,), cur, lab)
                if nxt is None:
                    return
                cur = nxt
            elif isinstance(fr, _Loop) and kind in ('break', 'continue'):
                self.cfg.edge(cur, fr.brk if kind == 'break' else fr.cont, lab)
                return
            i -= 1
        if kind != 'return':
            raise AnalysisError('break/continue outside loop')
        self.cfg.edge(cur, self.cfg.exit, lab)

    # -- conditions ----------------------------------------------------------
    def _cond(self, expr, preds, stmt):
        """Lower a condition; returns (true_outs, false_outs) as lists of (node,label)."""
        if isinstance(expr, ast.UnaryOp) and isinstance(expr.op, ast.Not):
            t, f = self._cond(expr.operand, preds, stmt)
            return f, t
        if isinstance(expr, ast.BoolOp):
            if isinstance(expr.op, ast.And):
                falses = []
                cur = preds
                for v in expr.values:
                    t, f = self._cond(v, cur, stmt)
                    falses += f
                    cur = t
                return cur, falses
            else:
                trues = []
                cur = preds
                for v in expr.values:
                    t, f = self._cond(v, cur, stmt)
                    trues += t
                    cur = f
                return trues, cur
        if isinstance(expr, ast.Compare) and len(expr.ops) > 1:
            parts = []
            left = expr.left
            for op, right in zip(expr.ops, expr.comparators):
                parts.append(ast.Compare(left=left, ops=[op], comparators=[right]))
                left = right
            for x in parts:
                ast.copy_location(x, expr)
            conj = ast.BoolOp(op=ast.And(), values=parts)
            ast.copy_location(conj, expr)
            return self._cond(conj, preds, stmt)
        n = self.cfg.new('test', expr, stmt)
        for (p, l) in preds:
            self.cfg.edge(p, n, l)
        if may_raise_implicitly(expr):
            self._route_exc(n)
        return [(n, 'T')], [(n, 'F')]

    # -- statements ------------------------------------------------------------
    def _simple(self, kind, st, preds, payload=None):
        n = self.cfg.new(kind, payload if payload is not None else st, st)
        for (p, l) in preds:
            self.cfg.edge(p, n, l)
        return n

    def _block(self, stmts, preds):
        for st in stmts:
            if not preds:
                break       # unreachable code after return/raise/break
            preds = self._stmt(st, preds)
        return preds

    def _stmt(self, st, preds):
        c = self.cfg
        if self.opaque is not None and isinstance(
                st, (ast.If, ast.While, ast.For, ast.AsyncFor, ast.Try, ast.With,
                     ast.AsyncWith)) and self.opaque(st) and not has_escaping_jump(st):
            n = self._simple('opaque', st, preds)
            if not isinstance(st, ast.Try) or not any(
                    h.type is None for h in st.handlers):
                self._route_exc(n)
            return [(n, 'next')]
        if isinstance(st, ast.If):
            t, f = self._cond(st.test, preds, st)
            outs = self._block(st.body, t)
            outs2 = self._block(st.orelse, f) if st.orelse else f
            return outs + outs2
        if isinstance(st, ast.While):
            head = c.new('join', None, st)
            head.lineno = st.lineno
            head.origin = 'loophead'
            for (p, l) in preds:
                c.edge(p, head, l)
            after = c.new('join', None, st)
            is_true = isinstance(st.test, ast.Constant) and st.test.value is True
            if is_true:
                t, f = [(head, 'next')], []
            else:
                t, f = self._cond(st.test, [(head, 'next')], st)
            self.frames.append(_Loop(head, after))
            outs = self._block(st.body, t)
            self.frames.pop()
            for (p, l) in outs:
                c.edge(p, head, l)
            outs2 = self._block(st.orelse, f) if st.orelse else f
            for (p, l) in outs2:
                c.edge(p, after, l)
            return [(after, 'next')] if after.pred else []
        if isinstance(st, (ast.For, ast.AsyncFor)):
            it = c.new('iter', st, st)
            for (p, l) in preds:
                c.edge(p, it, l)
            if may_raise_implicitly(st.iter):
                self._route_exc(it)
            after = c.new('join', None, st)
            self.frames.append(_Loop(it, after))
            outs = self._block(st.body, [(it, 'loop')])
            self.frames.pop()
            for (p, l) in outs:
                c.edge(p, it, l)
            outs2 = self._block(st.orelse, [(it, 'done')]) if st.orelse else [(it, 'done')]
            for (p, l) in outs2:
                c.edge(p, after, l)
            return [(after, 'next')]
        if isinstance(st, ast.Try):
            fin = None
            if st.finalbody:
                fin = _Finally(st.finalbody)
                self.frames.append(fin)
            hnodes = []
            for h in st.handlers:
                hn = c.new('handler', h, st)
                hn.lineno = h.lineno
                hnodes.append((hn, _handler_names(h)))
            if hnodes:
                self.frames.append(_Try(hnodes))
            outs = self._block(st.body, preds)
            if hnodes:
                self.frames.pop()
            if st.orelse:
                outs = self._block(st.orelse, outs)
            for (hn, names) in hnodes:
                outs += self._block(hn.ast.body, [(hn, 'next')])
            if fin is not None:
                self.frames.pop()
                if outs:
                    j = c.new('join', None, st)
                    for (p, l) in outs:
                        c.edge(p, j, l)
                    outs = self._block(st.finalbody, [(j, 'next')])
            return outs
        if isinstance(st, (ast.With, ast.AsyncWith)):
            cur = preds
            for item in st.items:
                n = self._simple('with', st, cur, item)
                n.lineno = st.lineno
                if may_raise_implicitly(item.context_expr):
                    self._route_exc(n)
                cur = [(n, 'next')]
            return self._block(st.body, cur)
        if isinstance(st, ast.Return):
            n = self._simple('return', st, preds)
            if may_raise_implicitly(st.value):
                self._route_exc(n)
            self._route_jump(n, 'return')
            return []
        if isinstance(st, ast.Raise):
            n = self._simple('raisestmt', st, preds)
            self._route_exc(n, raised=self._raised_class(st), label='raise')
            return []
        if isinstance(st, ast.Break):
            n = self._simple('stmt', st, preds)
            self._route_jump(n, 'break')
            return []
        if isinstance(st, ast.Continue):
            n = self._simple('stmt', st, preds)
            self._route_jump(n, 'continue')
            return []
        if isinstance(st, (ast.FunctionDef, ast.AsyncFunctionDef, ast.ClassDef)):
            n = self._simple('stmt', st, preds)
            return [(n, 'next')]
        if isinstance(st, (ast.Assign, ast.AugAssign, ast.AnnAssign, ast.Expr, ast.Delete,
                           ast.Pass, ast.Import, ast.ImportFrom, ast.Global, ast.Nonlocal,
                           ast.Assert)):
            n = self._simple('stmt', st, preds)
            if may_raise_implicitly(st):
                self._route_exc(n)
            return [(n, 'next')]
        raise AnalysisError('statement kind %s at line %s not supported by the CFG builder'
                            % (type(st).__name__, getattr(st, 'lineno', '?')))

    def _raised_class(self, st):
        """Class name of ``raise X(...)`` / ``raise X`` or a recognised re-raise idiom."""
        e = st.exc
        if e is None:
            return self._current_handler_class()
        if isinstance(e, ast.Call):
            f = e.func
            # exc[1].with_traceback(exc[2]) inside ``except X`` re-raises X
            if isinstance(f, ast.Attribute) and f.attr == 'with_traceback':
                return self._current_handler_class()
            e = f
        if isinstance(e, ast.Attribute):
            return e.attr
        if isinstance(e, ast.Name):
            return e.id
        return None

    _handler_stack = None

    def _current_handler_class(self):
        return None     # refined by paths.py, which tracks the handler being executed

    def build(self):
        body = self.cfg.func.body
        outs = self._block(body, [(self.cfg.entry, 'next')])
        for (p, l) in outs:
            self.cfg.edge(p, self.cfg.exit, l)
        return self.cfg


def build_cfg(func_node, exc_parents=None, opaque=None):
    return Builder(func_node, exc_parents, opaque).build()
