"""Statement-level control-flow graphs with lowered conditions and exception edges.

Node kinds
  entry / exit (normal return) / raise (exception leaves the function)
  stmt     simple statement (Assign, AugAssign, AnnAssign, Expr, Delete, Pass, Import,
           Global, Nonlocal, Assert, nested FunctionDef/ClassDef as a binding)
  test     one condition atom (BoolOp / Not are lowered into several test nodes);
           successors labelled 'T' and 'F'
  iter     ``for`` header: successors 'loop' (next element bound) and 'done'
  with     ``with`` entry (context expression evaluated, target bound)
  return   ``return`` statement (single successor: exit, possibly via finally copies)
  raisestmt ``raise`` statement
  handler  entry of an ``except`` clause
  join     no-op merge point

Exception edges (label 'exc'): every node that contains a call, subscript, attribute access,
await or binary operation gets an edge to the handlers that may catch an exception raised
there: the handlers of each enclosing ``try`` from the innermost outwards, stopping after a
``try`` with a catch-all handler; if none stops it, an edge to the ``raise`` exit.  These
edges over-approximate; analyses choose which ones to follow (see paths.py: only edges from
nodes whose calls have an explicit-raise summary lead out of the function).
``raise X`` statements get 'exc' edges to the first matching handler (by class name, using
the exception hierarchy supplied by the caller) or outwards.
"""
import ast

from .model import AnalysisError, exc_is_subclass

CATCH_ALL = {'BaseException', 'Exception'}


class Node:
    __slots__ = ('id', 'kind', 'ast', 'succ', 'pred', 'lineno', 'stmt', 'origin')

    def __init__(self, id, kind, a=None, stmt=None):
        self.id = id
        self.kind = kind
        self.ast = a
        self.succ = []      # list of (Node, label)
        self.pred = []      # list of (Node, label)
        self.stmt = stmt    # the enclosing statement (for tests: the If/While; for iter: the For)
        self.lineno = getattr(a, 'lineno', None) or getattr(stmt, 'lineno', None)
        self.origin = None

    def __repr__(self):
        t = ''
        if self.ast is not None and self.kind not in ('handler',):
            try:
                t = ast.unparse(self.ast).split('\n')[0][:60]
            except Exception:
                t = '?'
        return '<%d %s L%s %s>' % (self.id, self.kind, self.lineno, t)


class CFG:
    def __init__(self, func_node):
        self.func = func_node
        self.nodes = []
        self.entry = self.new('entry')
        self.exit = self.new('exit')
        self.raise_exit = self.new('raise')

    def new(self, kind, a=None, stmt=None):
        n = Node(len(self.nodes), kind, a, stmt)
        self.nodes.append(n)
        return n

    def edge(self, a, b, label='next'):
        for (t, l) in a.succ:
            if t is b and l == label:
                return
        a.succ.append((b, label))
        b.pred.append((a, label))

    # -- queries -----------------------------------------------------------
    def nodes_of_kind(self, *kinds):
        return [n for n in self.nodes if n.kind in kinds]

    def reachable(self, start=None, follow=None):
        start = start or self.entry
        seen = {start.id}
        stack = [start]
        while stack:
            n = stack.pop()
            for (t, l) in n.succ:
                if follow is not None and not follow(n, t, l):
                    continue
                if t.id not in seen:
                    seen.add(t.id)
                    stack.append(t)
        return seen

    def dominators(self, follow=None):
        """dom[n.id] = set of node ids dominating n (reachable nodes only)."""
        reach = self.reachable(follow=follow)
        order = [n for n in self.nodes if n.id in reach]
        allset = set(reach)
        dom = {n.id: set(allset) for n in order}
        dom[self.entry.id] = {self.entry.id}
        changed = True
        while changed:
            changed = False
            for n in order:
                if n is self.entry:
                    continue
                preds = [p for (p, l) in n.pred if p.id in reach and
                         (follow is None or follow(p, n, l))]
                if not preds:
                    continue
                new = set.intersection(*[dom[p.id] for p in preds]) | {n.id}
                if new != dom[n.id]:
                    dom[n.id] = new
                    changed = True
        return dom

    def edge_dominators(self, follow=None):
        """For each node id, the set of (test_node_id, label) branch edges that every path
        from entry to the node must take."""
        reach = self.reachable(follow=follow)
        order = [n for n in self.nodes if n.id in reach]
        TOP = None
        ed = {n.id: TOP for n in order}
        ed[self.entry.id] = frozenset()
        changed = True
        while changed:
            changed = False
            for n in order:
                if n is self.entry:
                    continue
                acc = TOP
                for (p, l) in n.pred:
                    if p.id not in reach or (follow is not None and not follow(p, n, l)):
                        continue
                    if ed[p.id] is TOP:
                        continue
                    s = ed[p.id]
                    if p.kind in ('test', 'iter') and l in ('T', 'F', 'loop', 'done'):
                        s = s | {(p.id, l)}
                    acc = s if acc is TOP else (acc & s)
                if acc is not TOP and acc != ed[n.id]:
                    ed[n.id] = frozenset(acc)
                    changed = True
        return {k: (v if v is not None else frozenset()) for k, v in ed.items()}


def _handler_names(h):
    """Class names (last attribute segment) an except clause catches; None = bare except."""
    if h.type is None:
        return None
    ts = h.type.elts if isinstance(h.type, ast.Tuple) else [h.type]
    out = []
    for t in ts:
        if isinstance(t, ast.Attribute):
            out.append(t.attr)
        elif isinstance(t, ast.Name):
            out.append(t.id)
        else:
            out.append(ast.unparse(t))
    return out


def may_raise_implicitly(node):
    """Does evaluating this AST possibly raise (call, subscript, attribute, await, binop)?"""
    if node is None:
        return False
    for n in ast.walk(node):
        if isinstance(n, (ast.Call, ast.Subscript, ast.Await, ast.BinOp, ast.Attribute,
                          ast.Compare, ast.Delete)):
            return True
    return False


class _Frame:
    pass


class _Loop(_Frame):
    def __init__(self, cont, brk):
        self.cont = cont
        self.brk = brk


class _Try(_Frame):
    def __init__(self, handlers):
        self.handlers = handlers   # list of (handler_node, names|None)


class _Finally(_Frame):
    def __init__(self, body):
        self.body = body
        self.cache = {}


def has_escaping_jump(st):
    """Does compound statement st contain a return/raise, or a break/continue that targets a
    loop outside st?  (nested function bodies are not entered)"""
    def rec(n, in_loop):
        for ch in ast.iter_child_nodes(n):
            if isinstance(ch, (ast.FunctionDef, ast.AsyncFunctionDef, ast.ClassDef, ast.Lambda)):
                continue
            if isinstance(ch, (ast.Return, ast.Raise)):
                return True
            if isinstance(ch, (ast.Break, ast.Continue)) and not in_loop:
                return True
            if rec(ch, in_loop or isinstance(ch, (ast.For, ast.AsyncFor, ast.While))):
                return True
        return False
    return rec(st, isinstance(st, (ast.For, ast.AsyncFor, ast.While)))


def _is_logger_call_stmt(st):
    """``<...>.logger.<level>(...)`` / ``logger.<level>(...)`` as an expression statement."""
    if not isinstance(st, ast.Expr):
        return False
    v = st.value
    if isinstance(v, ast.Await):
        v = v.value
    if not isinstance(v, ast.Call) or not isinstance(v.func, ast.Attribute):
        return False
    f = v.func.value
    return (isinstance(f, ast.Attribute) and f.attr == 'logger') or \
        (isinstance(f, ast.Name) and f.id == 'logger')


def _own_walk(node):
    """ast.walk that does not enter nested function / lambda / class bodies."""
    stack = [node]
    while stack:
        n = stack.pop()
        yield n
        for ch in ast.iter_child_nodes(n):
            if isinstance(ch, (ast.FunctionDef, ast.AsyncFunctionDef, ast.ClassDef, ast.Lambda)):
                continue
            stack.append(ch)


def log_only_locals(func_node):
    """Local names whose every read is an argument of a logger call (directly, or through
    another such local).  Statements that only compute them carry no protocol fact; the
    builder keeps them as one node so that the way a log message is assembled does not
    multiply paths (slicing)."""
    params = {a.arg for a in ast.walk(func_node.args) if isinstance(a, ast.arg)}
    stores = {}
    for st in func_node.body:
        for n in _own_walk(st):
            if isinstance(n, ast.Name) and isinstance(n.ctx, ast.Store) and n.id not in params:
                stores.setdefault(n.id, 0)
    # statements (simple ones) by the names they read
    cand = set(stores)
    # names bound other than by a plain ``name = expr`` statement are not candidates
    for st in func_node.body:
        for n in _own_walk(st):
            if isinstance(n, (ast.For, ast.AsyncFor, ast.With, ast.AsyncWith, ast.ExceptHandler,
                              ast.NamedExpr, ast.AugAssign, ast.comprehension, ast.Global,
                              ast.Nonlocal, ast.Import, ast.ImportFrom, ast.Delete)):
                for m in ast.walk(n.target if hasattr(n, 'target') else n):
                    if isinstance(m, ast.Name) and isinstance(m.ctx, (ast.Store, ast.Del)):
                        cand.discard(m.id)
                if isinstance(n, ast.ExceptHandler) and n.name:
                    cand.discard(n.name)
                if isinstance(n, (ast.Global, ast.Nonlocal)):
                    cand -= set(n.names)
            if isinstance(n, ast.Assign):
                for t in n.targets:
                    if not isinstance(t, ast.Name):
                        for m in ast.walk(t):
                            if isinstance(m, ast.Name) and isinstance(m.ctx, ast.Store):
                                cand.discard(m.id)
    # nested functions reading a name keep it live
    for n in ast.walk(func_node):
        if isinstance(n, (ast.FunctionDef, ast.AsyncFunctionDef, ast.Lambda)) and \
                n is not func_node:
            for m in ast.walk(n):
                if isinstance(m, ast.Name):
                    cand.discard(m.id)
    changed = True
    while changed:
        changed = False
        uses = {}

        def visit(st):
            # returns nothing; records for each Load of a candidate whether it is log-only
            if isinstance(st, (ast.FunctionDef, ast.AsyncFunctionDef, ast.ClassDef)):
                return
            simple_ok = _is_logger_call_stmt(st) or (
                isinstance(st, ast.Assign) and all(
                    isinstance(t, ast.Name) and t.id in cand for t in st.targets))
            if isinstance(st, (ast.If, ast.While, ast.For, ast.AsyncFor, ast.Try, ast.With,
                               ast.AsyncWith)):
                for f, v in ast.iter_fields(st):
                    if isinstance(v, list) and v and isinstance(v[0], ast.stmt):
                        for s2 in v:
                            visit(s2)
                    elif isinstance(v, list) and v and isinstance(v[0], ast.ExceptHandler):
                        for h in v:
                            for s2 in h.body:
                                visit(s2)
                    elif isinstance(v, list):
                        for x in v:
                            if isinstance(x, ast.AST):
                                mark(x, False)
                    elif isinstance(v, ast.AST):
                        mark(v, False)
                return
            mark(st, simple_ok)

        def mark(node, ok):
            for m in _own_walk(node):
                if isinstance(m, ast.Name) and isinstance(m.ctx, ast.Load) and m.id in cand:
                    uses.setdefault(m.id, []).append(ok)
        for st in func_node.body:
            visit(st)
        for name in list(cand):
            if not uses.get(name) or not all(uses[name]):
                cand.discard(name)
                changed = True
    return cand


def _first_ifexp(st):
    """First conditional expression of a simple statement in evaluation order (not inside a
    lambda or comprehension)."""
    def rec(n):
        if isinstance(n, (ast.Lambda, ast.ListComp, ast.SetComp, ast.DictComp,
                          ast.GeneratorExp)):
            return None
        if isinstance(n, ast.IfExp):
            return n
        for ch in ast.iter_child_nodes(n):
            r = rec(ch)
            if r is not None:
                return r
        return None
    return rec(st)


class _GetDefault(ast.NodeTransformer):
    """``S.get(K, [None])[0]`` is ``S[K][0] if K in S else None``."""
    hit = False

    def visit_Subscript(self, node):
        self.generic_visit(node)
        v = node.value
        if isinstance(node.ctx, ast.Load) and isinstance(node.slice, ast.Constant) and \
                node.slice.value == 0 and isinstance(v, ast.Call) and \
                isinstance(v.func, ast.Attribute) and v.func.attr == 'get' and \
                len(v.args) == 2 and not v.keywords and isinstance(v.args[1], ast.List) and \
                len(v.args[1].elts) == 1 and isinstance(v.args[1].elts[0], ast.Constant) and \
                v.args[1].elts[0].value is None and \
                isinstance(v.func.value, (ast.Name, ast.Attribute)):
            s_, k_ = v.func.value, v.args[0]
            new = ast.IfExp(
                test=ast.Compare(left=k_, ops=[ast.In()], comparators=[s_]),
                body=ast.Subscript(ast.Subscript(s_, k_, ast.Load()), ast.Constant(0),
                                   ast.Load()),
                orelse=ast.Constant(None))
            ast.copy_location(new, node)
            ast.fix_missing_locations(new)
            self.hit = True
            return new
        return node


def _expand_get_default(st):
    if not any(isinstance(n, ast.Attribute) and n.attr == 'get' for n in ast.walk(st)):
        return st
    import copy
    t = _GetDefault()
    st2 = t.visit(copy.deepcopy(st))
    return st2 if t.hit else st


class _OrDefault(ast.NodeTransformer):
    """``x or d`` with a plain local ``x`` in a value position is ``x if x else d`` (x is read
    twice, which nothing can observe for a local)."""
    hit = False

    def visit_Lambda(self, node):
        return node
    visit_ListComp = visit_SetComp = visit_DictComp = visit_GeneratorExp = visit_Lambda
    visit_Compare = visit_Lambda

    def visit_UnaryOp(self, node):
        if isinstance(node.op, ast.Not):
            return node
        return self.generic_visit(node)

    def visit_IfExp(self, node):
        node.body = self.visit(node.body)
        node.orelse = self.visit(node.orelse)
        return node

    def visit_BoolOp(self, node):
        if isinstance(node.op, ast.Or) and len(node.values) == 2 and \
                isinstance(node.values[0], ast.Name):
            new = ast.IfExp(test=node.values[0], body=node.values[0], orelse=node.values[1])
            ast.copy_location(new, node)
            ast.fix_missing_locations(new)
            self.hit = True
            return new
        return node


def _expand_or_default(st):
    if not any(isinstance(n, ast.BoolOp) for n in ast.walk(st)):
        return st
    import copy
    t = _OrDefault()
    st2 = t.visit(copy.deepcopy(st))
    return st2 if t.hit else st


class _Replace(ast.NodeTransformer):
    def __init__(self, old, new):
        self.old = old
        self.new = new

    def visit(self, node):
        if node is self.old:
            return self.new
        return self.generic_visit(node)


def _with_branch(st, ifexp, branch):
    import copy
    memo = {id(ifexp): ifexp}
    st2 = copy.deepcopy(st, memo)
    return _Replace(ifexp, branch).visit(st2)


def canon_while(st):
    """``while C: if D: break; <rest>`` is ``while C and not D: <rest>`` (no else clause on the
    loop; the ``if`` is the first statement of the body, so nothing happens between the two
    tests); with C == True that is ``while not D``.  The normal form keeps the whole
    condition in the loop header."""
    while isinstance(st, ast.While) and not st.orelse and len(st.body) > 1:
        first = st.body[0]
        if not (isinstance(first, ast.If) and not first.orelse and len(first.body) == 1 and
                isinstance(first.body[0], ast.Break)):
            break
        neg = ast.UnaryOp(ast.Not(), first.test)
        ast.copy_location(neg, first.test)
        if isinstance(st.test, ast.Constant) and st.test.value is True:
            test = neg
        else:
            test = ast.BoolOp(ast.And(), [st.test, neg])
            ast.copy_location(test, st.test)
        w = ast.While(test=test, body=st.body[1:], orelse=[])
        ast.copy_location(w, st)
        st = w
    return st


class _SubstIndex(ast.NodeTransformer):
    def __init__(self, seq_txt, idx, elem):
        self.seq_txt, self.idx, self.elem = seq_txt, idx, elem
        self.other_use = False

    def visit_Subscript(self, node):
        if isinstance(node.slice, ast.Name) and node.slice.id == self.idx and \
                isinstance(node.ctx, ast.Load) and ast.unparse(node.value) == self.seq_txt:
            return ast.copy_location(ast.Name(self.elem, ast.Load()), node)
        return self.generic_visit(node)

    def visit_Name(self, node):
        if node.id == self.idx:
            self.other_use = True
        return node


def _fold_index_loops(stmts, func):
    """``i = 0`` directly followed by ``while i < len(X) [and C]: <body using X[i]>; i += 1``
    is ``for e in X: [if not C: break]; <body using e>`` when i is used for nothing else, X is
    not rebound in the body and the body has no ``continue``.  The for loop is the normal
    form."""
    import copy
    out = []
    k = 0
    while k < len(stmts):
        st = stmts[k]
        nxt = stmts[k + 1] if k + 1 < len(stmts) else None
        rep = None
        if isinstance(st, ast.Assign) and len(st.targets) == 1 and \
                isinstance(st.targets[0], ast.Name) and isinstance(st.value, ast.Constant) and \
                st.value.value == 0 and type(st.value.value) is int and \
                isinstance(nxt, ast.While) and not nxt.orelse and len(nxt.body) >= 2:
            i = st.targets[0].id
            test = nxt.test
            rest = []
            if isinstance(test, ast.BoolOp) and isinstance(test.op, ast.And):
                test, rest = test.values[0], list(test.values[1:])
            last = nxt.body[-1]
            ok = isinstance(test, ast.Compare) and len(test.ops) == 1 and \
                isinstance(test.ops[0], ast.Lt) and isinstance(test.left, ast.Name) and \
                test.left.id == i and isinstance(test.comparators[0], ast.Call) and \
                isinstance(test.comparators[0].func, ast.Name) and \
                test.comparators[0].func.id == 'len' and len(test.comparators[0].args) == 1 and \
                isinstance(last, ast.AugAssign) and isinstance(last.op, ast.Add) and \
                isinstance(last.target, ast.Name) and last.target.id == i and \
                isinstance(last.value, ast.Constant) and last.value.value == 1
            if ok:
                seq = test.comparators[0].args[0]
                seq_txt = ast.unparse(seq)
                body = nxt.body[:-1]
                base = seq
                while isinstance(base, ast.Attribute):
                    base = base.value
                ok = isinstance(base, ast.Name)
                for b in body:
                    for m in ast.walk(b):
                        if isinstance(m, ast.Continue):
                            ok = False
                        if isinstance(m, ast.Name) and isinstance(m.ctx, (ast.Store, ast.Del)) \
                                and m.id in (i, getattr(base, 'id', None)):
                            ok = False
                # the index must not be read anywhere but in this loop
                inside = {id(m) for m in ast.walk(nxt)}
                for m in ast.walk(func):
                    if isinstance(m, ast.Name) and m.id == i and id(m) not in inside and \
                            m is not st.targets[0]:
                        ok = False
            if ok:
                elem = '_e_%s' % i
                sub = _SubstIndex(seq_txt, i, elem)
                nb = [sub.visit(copy.deepcopy(b)) for b in body]
                nrest = [sub.visit(copy.deepcopy(r)) for r in rest]
                if not sub.other_use:
                    pre = []
                    if nrest:
                        cond = nrest[0] if len(nrest) == 1 else ast.BoolOp(ast.And(), nrest)
                        brk = ast.If(test=ast.UnaryOp(ast.Not(), cond), body=[ast.Break()],
                                     orelse=[])
                        pre = [brk]
                    rep = ast.For(target=ast.Name(elem, ast.Store()), iter=seq,
                                  body=pre + nb, orelse=[], type_comment=None)
                    ast.copy_location(rep, nxt)
                    for x in pre:
                        ast.copy_location(x, nxt)
                        for m in ast.walk(x):
                            if not hasattr(m, 'lineno'):
                                ast.copy_location(m, nxt)
                    ast.fix_missing_locations(rep)
        if rep is not None:
            out.append(rep)
            k += 2
        else:
            out.append(st)
            k += 1
    return out


def _fold_loop_appends(stmts):
    """``x = []`` directly followed by ``for T in IT: x.append(E)`` (optionally under one
    ``if C:``) is the list comprehension ``x = [E for T in IT if C]``: same elements, same
    order, same calls.  The comprehension is the normal form (one binding, no loop paths)."""
    out = []
    i = 0
    while i < len(stmts):
        st = stmts[i]
        nxt = stmts[i + 1] if i + 1 < len(stmts) else None
        comp = None
        if isinstance(st, ast.Assign) and len(st.targets) == 1 and \
                isinstance(st.targets[0], ast.Name) and isinstance(st.value, ast.List) and \
                not st.value.elts and isinstance(nxt, ast.For) and not nxt.orelse and \
                len(nxt.body) == 1:
            x = st.targets[0].id
            body = nxt.body[0]
            conds = []
            if isinstance(body, ast.If) and not body.orelse and len(body.body) == 1:
                conds = [body.test]
                body = body.body[0]
            if isinstance(body, ast.Expr) and isinstance(body.value, ast.Call) and \
                    isinstance(body.value.func, ast.Attribute) and \
                    body.value.func.attr == 'append' and \
                    isinstance(body.value.func.value, ast.Name) and \
                    body.value.func.value.id == x and len(body.value.args) == 1 and \
                    not body.value.keywords:
                elt = body.value.args[0]
                uses_x = any(isinstance(m, ast.Name) and m.id == x
                             for part in [elt, nxt.iter] + conds for m in ast.walk(part))
                has_await = any(isinstance(m, ast.Await)
                                for part in [elt] + conds for m in ast.walk(part))
                if not uses_x and not has_await:
                    lc = ast.ListComp(elt=elt, generators=[ast.comprehension(
                        target=nxt.target, iter=nxt.iter, ifs=conds, is_async=0)])
                    ast.copy_location(lc, st.value)
                    comp = ast.Assign(targets=st.targets, value=lc)
                    ast.copy_location(comp, st)
                    ast.fix_missing_locations(comp)
        if comp is not None:
            out.append(comp)
            i += 2
        else:
            out.append(st)
            i += 1
    return out


class Builder:
    def __init__(self, func_node, exc_parents=None, opaque=None):
        """exc_parents: dict class name -> parent class name (exception hierarchy).
        opaque(stmt) -> bool: compound statements to be kept as one 'opaque' node (slicing);
        only honoured when the statement has no escaping jump."""
        self.cfg = CFG(func_node)
        self.exc_parents = exc_parents or {}
        self.opaque = opaque
        self.frames = []
        self.log_only = log_only_locals(func_node) if isinstance(
            func_node, (ast.FunctionDef, ast.AsyncFunctionDef)) else set()

    def _log_only_stmt(self, st):
        """A statement (possibly an if/else ladder) that does nothing but bind log-only
        locals."""
        if isinstance(st, ast.Assign):
            return all(isinstance(t, ast.Name) and t.id in self.log_only for t in st.targets)
        if isinstance(st, ast.If):
            return bool(st.body) and all(self._log_only_stmt(x) for x in st.body + st.orelse)
        return isinstance(st, ast.Pass)

    # -- exception class matching -----------------------------------------
    def _is_subclass(self, name, base):
        return exc_is_subclass(name, base, self.exc_parents)

    def _catches(self, names, raised):
        """True / False / None(unknown) whether handler with `names` catches class `raised`."""
        if names is None:
            return True
        if raised is None:
            return None
        for n in names:
            if n in CATCH_ALL and not self._is_subclass(raised, 'BaseException-only'):
                # Exception catches everything we model except KeyboardInterrupt & co
                if n == 'BaseException' or raised not in ('KeyboardInterrupt', 'SystemExit',
                                                          'GeneratorExit', 'CancelledError'):
                    return True
            if self._is_subclass(raised, n):
                return True
        return False

    # -- routing of jumps through finally/try frames ------------------------
    def _route_exc(self, src, raised=None, depth=None, label='exc'):
        """Add exception edges from src outward starting at frame index depth-1."""
        frames = self.frames if depth is None else self.frames[:depth]
        i = len(frames) - 1
        cur = src
        lab = label
        while i >= 0:
            fr = frames[i]
            if isinstance(fr, _Try):
                stop = False
                for (hn, names) in fr.handlers:
                    c = self._catches(names, raised)
                    if c is True:
                        self.cfg.edge(cur, hn, lab)
                        stop = True
                        break
                    if c is None:
                        self.cfg.edge(cur, hn, lab)
                        if names is None or any(n in CATCH_ALL for n in names):
                            stop = True
                            break
                if stop:
                    return
            elif isinstance(fr, _Finally):
                cur = self._finally_copy(fr, i, ('exc', raised), cur, lab)
                lab = 'next'
                if cur is None:
                    return
            i -= 1
        self.cfg.edge(cur, self.cfg.raise_exit, lab)

    def _finally_copy(self, fr, idx, key, src, label):
        """Route src through a copy of the finally body built in the context outside it.
        Returns the node from which routing continues (the copy's tail) or None if the copy
        was already connected for this key."""
        if key in fr.cache:
            entry, tail, fresh = fr.cache[key]
            self.cfg.edge(src, entry, label)
            return None
        entry = self.cfg.new('join')
        saved = self.frames
        self.frames = saved[:idx]
        tails = self._block(fr.body, [(entry, 'next')])
        self.frames = saved
        tail = self.cfg.new('join')
        for (t, l) in tails:
            self.cfg.edge(t, tail, l)
        fr.cache[key] = (entry, tail, True)
        self.cfg.edge(src, entry, label)
        return tail

    def _route_jump(self, src, kind):
        """kind in 'return','break','continue'."""
        i = len(self.frames) - 1
        cur = src
        lab = 'next'
        while i >= 0:
            fr = self.frames[i]
            if isinstance(fr, _Finally):
                nxt = self._finally_copy(fr, i, (kind,), cur, lab)
                if nxt is None:
                    return
                cur = nxt
            elif isinstance(fr, _Loop) and kind in ('break', 'continue'):
                self.cfg.edge(cur, fr.brk if kind == 'break' else fr.cont, lab)
                return
            i -= 1
        if kind != 'return':
            raise AnalysisError('break/continue outside loop')
        self.cfg.edge(cur, self.cfg.exit, lab)

    # -- conditions ----------------------------------------------------------
    def _cond(self, expr, preds, stmt):
        """Lower a condition; returns (true_outs, false_outs) as lists of (node,label)."""
        if isinstance(expr, ast.UnaryOp) and isinstance(expr.op, ast.Not):
            t, f = self._cond(expr.operand, preds, stmt)
            return f, t
        if isinstance(expr, ast.BoolOp):
            if isinstance(expr.op, ast.And):
                falses = []
                cur = preds
                for v in expr.values:
                    t, f = self._cond(v, cur, stmt)
                    falses += f
                    cur = t
                return cur, falses
            else:
                trues = []
                cur = preds
                for v in expr.values:
                    t, f = self._cond(v, cur, stmt)
                    trues += t
                    cur = f
                return trues, cur
        if isinstance(expr, ast.Compare) and len(expr.ops) > 1:
            parts = []
            left = expr.left
            for op, right in zip(expr.ops, expr.comparators):
                parts.append(ast.Compare(left=left, ops=[op], comparators=[right]))
                left = right
            for x in parts:
                ast.copy_location(x, expr)
            conj = ast.BoolOp(op=ast.And(), values=parts)
            ast.copy_location(conj, expr)
            return self._cond(conj, preds, stmt)
        n = self.cfg.new('test', expr, stmt)
        for (p, l) in preds:
            self.cfg.edge(p, n, l)
        if may_raise_implicitly(expr):
            self._route_exc(n)
        return [(n, 'T')], [(n, 'F')]

    # -- statements ------------------------------------------------------------
    def _simple(self, kind, st, preds, payload=None):
        n = self.cfg.new(kind, payload if payload is not None else st, st)
        for (p, l) in preds:
            self.cfg.edge(p, n, l)
        return n

    def _block(self, stmts, preds):
        stmts = _fold_index_loops(_fold_loop_appends(stmts), self.cfg.func)
        for st in stmts:
            if not preds:
                break       # unreachable code after return/raise/break
            preds = self._stmt(st, preds)
        return preds

    def _stmt(self, st, preds):
        c = self.cfg
        if self.log_only and isinstance(st, ast.If) and self._log_only_stmt(st):
            n = self._simple('opaque', st, preds)
            self._route_exc(n)
            return [(n, 'next')]
        if isinstance(st, (ast.Assign, ast.AugAssign, ast.AnnAssign, ast.Return, ast.Expr,
                           ast.Raise)) and not _is_logger_call_stmt(st) and \
                not (isinstance(st, ast.Assign) and self._log_only_stmt(st)):
            st = _expand_get_default(st)
            st = _expand_or_default(st)
            ie = _first_ifexp(st)
            if ie is not None:
                # ``x = a if c else b`` is the statement ``if c: x = a else: x = b``
                body = _with_branch(st, ie, ie.body)
                orelse = _with_branch(st, ie, ie.orelse)
                low = ast.If(test=ie.test, body=[body], orelse=[orelse])
                ast.copy_location(low, st)
                low._lowered_from = st
                return self._stmt(low, preds)
        if self.opaque is not None and isinstance(
                st, (ast.If, ast.While, ast.For, ast.AsyncFor, ast.Try, ast.With,
                     ast.AsyncWith)) and self.opaque(st) and not has_escaping_jump(st):
            n = self._simple('opaque', st, preds)
            if not isinstance(st, ast.Try) or not any(
                    h.type is None for h in st.handlers):
                self._route_exc(n)
            return [(n, 'next')]
        if isinstance(st, ast.If):
            t, f = self._cond(st.test, preds, st)
            outs = self._block(st.body, t)
            outs2 = self._block(st.orelse, f) if st.orelse else f
            return outs + outs2
        if isinstance(st, ast.While):
            st = canon_while(st)
            head = c.new('join', None, st)
            head.lineno = st.lineno
            head.origin = 'loophead'
            for (p, l) in preds:
                c.edge(p, head, l)
            after = c.new('join', None, st)
            is_true = isinstance(st.test, ast.Constant) and st.test.value is True
            if is_true:
                t, f = [(head, 'next')], []
            else:
                t, f = self._cond(st.test, [(head, 'next')], st)
            # the ways out of the loop through its condition: (test node id, edge label)
            c.__dict__.setdefault('loop_exits', {})[head.id] = {(n_.id, l_) for n_, l_ in f}
            c.__dict__.setdefault('loop_tests', {})[head.id] = {n_.id for n_, _l in t} | \
                {n_.id for n_, _l in f}
            self.frames.append(_Loop(head, after))
            outs = self._block(st.body, t)
            self.frames.pop()
            for (p, l) in outs:
                c.edge(p, head, l)
            outs2 = self._block(st.orelse, f) if st.orelse else f
            for (p, l) in outs2:
                c.edge(p, after, l)
            return [(after, 'next')] if after.pred else []
        if isinstance(st, (ast.For, ast.AsyncFor)):
            it = c.new('iter', st, st)
            for (p, l) in preds:
                c.edge(p, it, l)
            if may_raise_implicitly(st.iter):
                self._route_exc(it)
            after = c.new('join', None, st)
            self.frames.append(_Loop(it, after))
            outs = self._block(st.body, [(it, 'loop')])
            self.frames.pop()
            for (p, l) in outs:
                c.edge(p, it, l)
            outs2 = self._block(st.orelse, [(it, 'done')]) if st.orelse else [(it, 'done')]
            for (p, l) in outs2:
                c.edge(p, after, l)
            return [(after, 'next')]
        if isinstance(st, ast.Try):
            fin = None
            if st.finalbody:
                fin = _Finally(st.finalbody)
                self.frames.append(fin)
            hnodes = []
            for h in st.handlers:
                hn = c.new('handler', h, st)
                hn.lineno = h.lineno
                hnodes.append((hn, _handler_names(h)))
            if hnodes:
                self.frames.append(_Try(hnodes))
            outs = self._block(st.body, preds)
            if hnodes:
                self.frames.pop()
            if st.orelse:
                outs = self._block(st.orelse, outs)
            for (hn, names) in hnodes:
                outs += self._block(hn.ast.body, [(hn, 'next')])
            if fin is not None:
                self.frames.pop()
                if outs:
                    j = c.new('join', None, st)
                    for (p, l) in outs:
                        c.edge(p, j, l)
                    outs = self._block(st.finalbody, [(j, 'next')])
            return outs
        if isinstance(st, (ast.With, ast.AsyncWith)):
            cur = preds
            for item in st.items:
                n = self._simple('with', st, cur, item)
                n.lineno = st.lineno
                if may_raise_implicitly(item.context_expr):
                    self._route_exc(n)
                cur = [(n, 'next')]
            return self._block(st.body, cur)
        if isinstance(st, ast.Return):
            n = self._simple('return', st, preds)
            if may_raise_implicitly(st.value):
                self._route_exc(n)
            self._route_jump(n, 'return')
            return []
        if isinstance(st, ast.Raise):
            n = self._simple('raisestmt', st, preds)
            self._route_exc(n, raised=self._raised_class(st), label='raise')
            return []
        if isinstance(st, ast.Break):
            n = self._simple('stmt', st, preds)
            self._route_jump(n, 'break')
            return []
        if isinstance(st, ast.Continue):
            n = self._simple('stmt', st, preds)
            self._route_jump(n, 'continue')
            return []
        if isinstance(st, (ast.FunctionDef, ast.AsyncFunctionDef, ast.ClassDef)):
            n = self._simple('stmt', st, preds)
            return [(n, 'next')]
        if isinstance(st, (ast.Assign, ast.AugAssign, ast.AnnAssign, ast.Expr, ast.Delete,
                           ast.Pass, ast.Import, ast.ImportFrom, ast.Global, ast.Nonlocal,
                           ast.Assert)):
            n = self._simple('stmt', st, preds)
            if may_raise_implicitly(st):
                self._route_exc(n)
            return [(n, 'next')]
        raise AnalysisError('statement kind %s at line %s not supported by the CFG builder'
                            % (type(st).__name__, getattr(st, 'lineno', '?')))

    def _raised_class(self, st):
        """Class name of ``raise X(...)`` / ``raise X`` or a recognised re-raise idiom."""
        e = st.exc
        if e is None:
            return self._current_handler_class()
        if isinstance(e, ast.Call):
            f = e.func
            # exc[1].with_traceback(exc[2]) inside ``except X`` re-raises X
            if isinstance(f, ast.Attribute) and f.attr == 'with_traceback':
                return self._current_handler_class()
            e = f
        if isinstance(e, ast.Attribute):
            return e.attr
        if isinstance(e, ast.Name):
            return e.id
        return None

    _handler_stack = None

    def _current_handler_class(self):
        return None     # refined by paths.py, which tracks the handler being executed

    def build(self):
        body = self.cfg.func.body
        outs = self._block(body, [(self.cfg.entry, 'next')])
        for (p, l) in outs:
            self.cfg.edge(p, self.cfg.exit, l)
        return self.cfg


def build_cfg(func_node, exc_parents=None, opaque=None):
    return Builder(func_node, exc_parents, opaque).build()
