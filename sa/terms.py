"""Provenance terms: structural comparison of computed values with oracle terms."""
import ast

from .expr import txt, match, unawait, parse


def flatten_concat(e):
    """Parts of a string/bytes concatenation: BinOp(+) chains and f-strings are flattened.
    Formatted values {x} become the call str(x) (f'{x}' == str(x) for the kinds used here);
    format specs / conversions are kept as opaque parts."""
    e = unawait(e)
    if isinstance(e, ast.BinOp) and isinstance(e.op, ast.Add):
        return flatten_concat(e.left) + flatten_concat(e.right)
    if isinstance(e, ast.Call) and isinstance(e.func, ast.Attribute) and e.func.attr == 'join' \
            and isinstance(e.func.value, ast.Constant) and e.func.value.value == '' and \
            len(e.args) == 1 and isinstance(e.args[0], (ast.List, ast.Tuple)) and \
            not e.keywords:
        out = []
        for x in e.args[0].elts:
            out.extend(flatten_concat(x))
        return merge_consts(out)
    if isinstance(e, ast.JoinedStr):
        out = []
        for v in e.values:
            if isinstance(v, ast.Constant):
                out.append(v)
            elif isinstance(v, ast.FormattedValue) and v.conversion in (-1, 115) and \
                    v.format_spec is None:
                # {x} and {x!s} are str(x); str(x) is x itself when x evidently is a str
                if evidently_str(v.value):
                    out.extend(flatten_concat(v.value))
                else:
                    out.append(ast.Call(ast.Name('str', ast.Load()), [v.value], []))
            else:
                out.append(v)
        return merge_consts(out)
    return [e]


def evidently_str(e):
    """Expressions whose value is a str by construction (so that str(e) == e)."""
    e = unawait(e)
    if isinstance(e, ast.Constant):
        return isinstance(e.value, str)
    if isinstance(e, ast.JoinedStr):
        return True
    if isinstance(e, ast.BinOp) and isinstance(e.op, ast.Add):
        return evidently_str(e.left) or evidently_str(e.right)
    if isinstance(e, ast.Call):
        f = e.func
        if isinstance(f, ast.Name) and f.id == 'str':
            return True
        if isinstance(f, ast.Attribute) and f.attr in ('decode', 'join', 'format', 'lower',
                                                       'upper', 'strip'):
            return True
        if isinstance(f, ast.Attribute) and f.attr == 'dumps' and 'json' in txt(f.value):
            return True
    return False


def merge_consts(parts):
    out = []
    for p in parts:
        if isinstance(p, ast.Constant) and isinstance(p.value, str) and out and \
                isinstance(out[-1], ast.Constant) and isinstance(out[-1].value, str):
            out[-1] = ast.Constant(out[-1].value + p.value)
        elif isinstance(p, ast.Constant) and p.value == '':
            continue
        else:
            out.append(p)
    return out


def parts_text(parts):
    return ' + '.join(txt(p) for p in parts) if parts else "''"


def match_parts(patterns, parts):
    """patterns: list of pattern strings / predicates; each must match the part at the same
    index.  Returns captures dict or None."""
    parts = merge_consts(parts)
    if len(patterns) != len(parts):
        return None
    caps = {}
    for pat, part in zip(patterns, parts):
        if callable(pat):
            if not pat(part):
                return None
        else:
            if match(pat, part, caps) is None:
                return None
    return caps


def kwargs_of(call):
    return {k.arg: k.value for k in call.keywords if k.arg}


def is_literal(e, value):
    try:
        return ast.literal_eval(e) == value and type(ast.literal_eval(e)) is type(value)
    except Exception:
        return False
