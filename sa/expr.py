"""Expression utilities: canonical text, pattern matching, substitution, guard atoms,
linear forms.  Everything works on ``ast`` nodes; nothing is evaluated by Python."""
import ast
import copy

from .model import AnalysisError


# --------------------------------------------------------------------------
# canonical text
# --------------------------------------------------------------------------
class _StripAwait(ast.NodeTransformer):
    def visit_Await(self, node):
        return self.visit(node.value)


def strip_await(e):
    return _StripAwait().visit(copy.deepcopy(e)) if e is not None else None


_TXT_CACHE = {}


class _NoAwaitUnparser(ast._Unparser):
    """ast.unparse that prints ``await x`` as ``x`` (no copy of the tree is needed)."""

    def visit_Await(self, node):
        self.set_precedence(self.get_precedence(node), node.value)
        self.traverse(node.value)


def txt(e):
    """Canonical text of an expression (awaits stripped)."""
    if e is None:
        return 'None'
    if isinstance(e, str):
        return e
    k = id(e)
    hit = _TXT_CACHE.get(k)
    if hit is not None and hit[0] is e:
        return hit[1]
    s = _NoAwaitUnparser().visit(e)
    if len(_TXT_CACHE) > 200000:
        _TXT_CACHE.clear()
    _TXT_CACHE[k] = (e, s)
    return s


def parse(s):
    return ast.parse(s, mode='eval').body


def dotted(e):
    """'a.b.c' for Name/Attribute chains, else None."""
    parts = []
    while isinstance(e, ast.Attribute):
        parts.append(e.attr)
        e = e.value
    if isinstance(e, ast.Name):
        parts.append(e.id)
        return '.'.join(reversed(parts))
    return None


def unawait(e):
    while isinstance(e, ast.Await):
        e = e.value
    return e


# --------------------------------------------------------------------------
# pattern matching:  names starting with '_' in the pattern are wildcards;
# '_x' captures into key 'x', a bare '_' matches anything without capture.
# Call patterns: positional args must match one by one unless the pattern's last
# positional is the name ``___`` (then extra args are allowed); keywords present in the
# pattern must be present in the subject; extra subject keywords are allowed unless the
# pattern carries the keyword ``_strict=True``.
# --------------------------------------------------------------------------
_PAT_CACHE = {}


def _pat(p):
    if isinstance(p, str):
        if p not in _PAT_CACHE:
            _PAT_CACHE[p] = parse(p)
        return _PAT_CACHE[p]
    return p


def match(pattern, e, caps=None):
    """Return dict of captures if e matches pattern, else None.  Awaits in e are ignored."""
    caps = {} if caps is None else caps
    return caps if _m(_pat(pattern), e, caps) else None


def _m(p, e, caps):
    e = unawait(e) if isinstance(e, ast.AST) else e
    if isinstance(p, ast.Name) and p.id.startswith('_'):
        key = p.id[1:]
        if key and key != '__':
            if key in caps:
                return txt(caps[key]) == txt(e)
            caps[key] = e
        return True
    if isinstance(p, ast.AST):
        if type(p) is not type(e):
            return False
        if isinstance(p, ast.Call):
            if not _m(p.func, e.func, caps):
                return False
            pargs = list(p.args)
            open_end = bool(pargs) and isinstance(pargs[-1], ast.Name) and pargs[-1].id == '___'
            if open_end:
                pargs = pargs[:-1]
                if len(e.args) < len(pargs):
                    return False
            elif len(e.args) != len(pargs):
                return False
            for a, b in zip(pargs, e.args):
                if not _m(a, b, caps):
                    return False
            strict = False
            ekw = {k.arg: k.value for k in e.keywords}
            for k in p.keywords:
                if k.arg == '_strict':
                    strict = True
                    continue
                if k.arg not in ekw or not _m(k.value, ekw[k.arg], caps):
                    return False
            if strict and set(ekw) - {k.arg for k in p.keywords}:
                return False
            return True
        if isinstance(p, ast.Constant):
            return type(p.value) is type(e.value) and p.value == e.value
        for f in p._fields:
            if f in ('ctx', 'lineno', 'col_offset', 'end_lineno', 'end_col_offset',
                     'type_comment', 'kind'):
                continue
            if not _m(getattr(p, f, None), getattr(e, f, None), caps):
                return False
        return True
    if isinstance(p, list):
        if not isinstance(e, list) or len(p) != len(e):
            return False
        return all(_m(a, b, caps) for a, b in zip(p, e))
    return p == e


def find_all(pattern, root):
    """All (node, captures) in root (any AST) matching pattern."""
    out = []
    pat = _pat(pattern)
    for n in ast.walk(root):
        if isinstance(n, ast.expr):
            c = match(pat, n, {})
            if c is not None:
                out.append((n, c))
    return out


def contains(pattern, root):
    return bool(find_all(pattern, root))


# --------------------------------------------------------------------------
# substitution of names
# --------------------------------------------------------------------------
def _comp_targets(node):
    names = set()
    for g in node.generators:
        for n in ast.walk(g.target):
            if isinstance(n, ast.Name):
                names.add(n.id)
    return names


def _fsubst(n, env, bound):
    """Functional substitution: returns n itself when nothing below it changes; substituted
    values are shared, never copied (expressions are immutable by convention)."""
    if isinstance(n, ast.Name):
        if isinstance(n.ctx, ast.Load):
            v = env.get(n.id)
            if v is not None and n.id not in bound:
                return v
        return n
    if isinstance(n, ast.Attribute) and isinstance(n.ctx, ast.Load):
        d = dotted(n)
        if d is not None:
            v = env.get(d)
            if v is not None and d.split('.')[0] not in bound:
                return v
    if isinstance(n, (ast.ListComp, ast.SetComp, ast.GeneratorExp, ast.DictComp)):
        bound = bound | _comp_targets(n)
    elif isinstance(n, ast.Lambda):
        bound = bound | {a.arg for a in n.args.args}
    elif isinstance(n, ast.Constant):
        return n
    changed = None
    for f, v in ast.iter_fields(n):
        if isinstance(v, ast.AST):
            nv = _fsubst(v, env, bound)
            if nv is not v:
                if changed is None:
                    changed = {}
                changed[f] = nv
        elif isinstance(v, list):
            nl = None
            for i, x in enumerate(v):
                if isinstance(x, ast.AST):
                    nx = _fsubst(x, env, bound)
                    if nx is not x:
                        if nl is None:
                            nl = list(v)
                        nl[i] = nx
            if nl is not None:
                if changed is None:
                    changed = {}
                changed[f] = nl
    if changed is None:
        return n
    new = copy.copy(n)
    for f, v in changed.items():
        setattr(new, f, v)
    if isinstance(new, ast.Attribute) and isinstance(new.ctx, ast.Load):
        # ``self.x`` with self bound to another name: the attribute fact is recorded under
        # the substituted receiver
        d = dotted(new)
        if d is not None:
            v = env.get(d)
            if v is not None and d.split('.')[0] not in bound:
                return v
    return new


def subst(e, env):
    """e with local names / attribute facts of env substituted (functional, sharing)."""
    if e is None:
        return None
    if not env:
        return e
    return _fsubst(e, env, frozenset())


def names_in(e):
    return {n.id for n in ast.walk(e) if isinstance(n, ast.Name)}


# --------------------------------------------------------------------------
# guard atoms
# --------------------------------------------------------------------------
def atom(e, pol=True):
    """Normalise a lowered condition atom into (text, polarity).

    ``a != b`` -> (a == b, not pol); ``a not in b`` -> (a in b, not pol);
    ``a is not b`` -> (a is b, not pol); ``not a`` -> (a, not pol);
    orderings are put into the form ``<linear> > 0`` / ``<linear> >= 0`` with positive
    polarity where the operands are linear, so that equivalent comparisons coincide.
    """
    e = unawait(e)
    if isinstance(e, ast.UnaryOp) and isinstance(e.op, ast.Not):
        return atom(e.operand, not pol)
    if isinstance(e, ast.Call) and isinstance(e.func, ast.Name) and e.func.id == 'bool' and \
            len(e.args) == 1 and not e.keywords:
        return atom(e.args[0], pol)         # as a condition, bool(x) is x
    if isinstance(e, ast.Compare) and len(e.ops) == 1:
        op = e.ops[0]
        l, r = e.left, e.comparators[0]
        if isinstance(op, ast.NotEq):
            return _sym_eq(l, r), (not pol)
        if isinstance(op, ast.Eq):
            return _sym_eq(l, r), pol
        if isinstance(op, (ast.NotIn, ast.In)):
            rt = txt(r)
            if isinstance(r, (ast.Tuple, ast.Set)) and r.elts and all(
                    isinstance(x, ast.Constant) for x in r.elts):
                # membership in a display of literals: list, tuple and set displays agree
                rt = '[%s]' % ', '.join(txt(x) for x in r.elts)
            return '%s in %s' % (txt(l), rt), (pol if isinstance(op, ast.In) else not pol)
        if isinstance(op, ast.IsNot):
            return '%s is %s' % (txt(l), txt(r)), (not pol)
        if isinstance(op, (ast.Gt, ast.GtE, ast.Lt, ast.LtE)):
            lf = ordering(e, pol)
            if lf is not None:
                return lf, True
    return txt(e), pol


def _sym_eq(l, r):
    a, b = txt(l), txt(r)
    # constants on the right
    if isinstance(l, ast.Constant) and not isinstance(r, ast.Constant):
        a, b = b, a
    return '%s == %s' % (a, b)


# --------------------------------------------------------------------------
# linear forms
# --------------------------------------------------------------------------
def linear(e):
    """Return (coeffs: dict text->number, const) or None if not linear/numeric-looking."""
    e = unawait(e)
    if isinstance(e, ast.Constant) and isinstance(e.value, (int, float)) \
            and not isinstance(e.value, bool):
        return {}, e.value
    if isinstance(e, ast.BinOp):
        if isinstance(e.op, (ast.Add, ast.Sub)):
            a, b = linear(e.left), linear(e.right)
            if a is None or b is None:
                return None
            s = 1 if isinstance(e.op, ast.Add) else -1
            co = dict(a[0])
            for k, v in b[0].items():
                co[k] = co.get(k, 0) + s * v
            return {k: v for k, v in co.items() if v != 0}, a[1] + s * b[1]
        if isinstance(e.op, ast.Mult):
            a, b = linear(e.left), linear(e.right)
            if a is None or b is None:
                return None
            if not a[0]:
                return {k: v * a[1] for k, v in b[0].items() if v * a[1] != 0}, a[1] * b[1]
            if not b[0]:
                return {k: v * b[1] for k, v in a[0].items() if v * b[1] != 0}, a[1] * b[1]
            return {txt(e): 1}, 0
        return {txt(e): 1}, 0
    if isinstance(e, ast.UnaryOp) and isinstance(e.op, ast.USub):
        a = linear(e.operand)
        if a is None:
            return None
        return {k: -v for k, v in a[0].items()}, -a[1]
    if isinstance(e, (ast.Name, ast.Attribute, ast.Call, ast.Subscript)):
        return {txt(e): 1}, 0
    return None


def lin_text(co, const):
    parts = []
    for k in sorted(co):
        v = co[k]
        if v == 1:
            parts.append('+' + k)
        elif v == -1:
            parts.append('-' + k)
        else:
            parts.append('%+g*%s' % (v, k))
    if const:
        parts.append('%+g' % const)
    return ' '.join(parts) if parts else '0'


def ordering(e, pol=True):
    """Canonical text '<lin> > 0' or '<lin> >= 0' of an ordering comparison with polarity."""
    e = unawait(e)
    if not (isinstance(e, ast.Compare) and len(e.ops) == 1):
        return None
    op = e.ops[0]
    a, b = linear(e.left), linear(e.comparators[0])
    if a is None or b is None:
        return None

    def sub(x, y):
        co = dict(x[0])
        for k, v in y[0].items():
            co[k] = co.get(k, 0) - v
        return {k: v for k, v in co.items() if v != 0}, x[1] - y[1]
    if isinstance(op, ast.Gt):
        d, strict = sub(a, b), True
    elif isinstance(op, ast.GtE):
        d, strict = sub(a, b), False
    elif isinstance(op, ast.Lt):
        d, strict = sub(b, a), True
    elif isinstance(op, ast.LtE):
        d, strict = sub(b, a), False
    else:
        return None
    if not pol:
        d = ({k: -v for k, v in d[0].items()}, -d[1])
        strict = not strict
    return '%s %s 0' % (lin_text(*d), '>' if strict else '>=')


def calls_in(e):
    """Call nodes inside e in evaluation (post-) order, not entering lambdas/comprehension
    bodies' nested defs."""
    out = []

    def rec(n):
        for c in ast.iter_child_nodes(n):
            if isinstance(c, (ast.Lambda, ast.FunctionDef, ast.AsyncFunctionDef, ast.ClassDef)):
                continue
            rec(c)
        if isinstance(n, ast.Call):
            out.append(n)
    if e is not None:
        rec(e)
    return out


def const_of(e):
    """Python value of a literal expression, else raises ValueError."""
    try:
        return ast.literal_eval(e)
    except Exception:
        raise ValueError('not a literal: %s' % txt(e))


def is_const(e, value=None):
    if not isinstance(e, ast.Constant):
        return False
    return value is None or (type(e.value) is type(value) and e.value == value)


def int_ordering(e, pol=True, symmap=None):
    """Integer ordering guard as a non-strict linear form: returns (coeffs, const) meaning
    sum(coeffs[s] * s) + const >= 0, or None.  symmap: expression text -> (symbol, offset)
    replaces an atom t by symbol + offset (e.g. S.count(sep) -> N - 1).  Strict comparisons
    are tightened by one (valid for integer-valued forms only)."""
    e = unawait(e)
    if not (isinstance(e, ast.Compare) and len(e.ops) == 1):
        return None
    op = e.ops[0]
    a, b = linear(e.left), linear(e.comparators[0])
    if a is None or b is None:
        return None

    def sub(x, y):
        co = dict(x[0])
        for k, v in y[0].items():
            co[k] = co.get(k, 0) - v
        return {k: v for k, v in co.items() if v != 0}, x[1] - y[1]
    if isinstance(op, ast.Gt):
        d, strict = sub(a, b), True
    elif isinstance(op, ast.GtE):
        d, strict = sub(a, b), False
    elif isinstance(op, ast.Lt):
        d, strict = sub(b, a), True
    elif isinstance(op, ast.LtE):
        d, strict = sub(b, a), False
    else:
        return None
    co, const = d
    if not pol:
        co = {k: -v for k, v in co.items()}
        const = -const
        strict = not strict
    if strict:
        const -= 1
    out = {}
    for k, v in co.items():
        if symmap and k in symmap:
            s, off = symmap[k]
            out[s] = out.get(s, 0) + v
            const += v * off
        else:
            out[k] = out.get(k, 0) + v
    return {k: v for k, v in out.items() if v != 0}, const
