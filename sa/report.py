"""Obligations, verdicts, evidence files, known findings (DESIGN.md section 4)."""
import ast
import json
import os
import sys
import time

from .model import Model, AnalysisError
from .resolve import Resolver
from .paths import Enumerator

VERIF = os.path.dirname(os.path.dirname(os.path.abspath(__file__)))


def _memoised(f):
    """A helper under a caching decorator is not 'the same statements somewhere else': what
    it returns may be the answer to an earlier call.  It is never inlined transparently."""
    for d in getattr(f.node, 'decorator_list', []) or []:
        t = ast.unparse(d)
        if any(x in t for x in ("lru_cache", "functools.cache", "cached_property", "memoize")) or t == "cache":
            return True
    return False


def _plain(d):
    """Materialise lazy path descriptions (and lists containing them)."""
    from .paths import LazyLines
    if isinstance(d, LazyLines):
        return list(d)
    if isinstance(d, (list, tuple)):
        out = []
        for x in d:
            x = _plain(x)
            out.append(x)
        return out
    return d


class Obligation:
    __slots__ = ('rule', 'what', 'status', 'site', 'key', 'detail', 'behaviour')

    def __init__(self, rule, what, status, site=None, key=None, detail=None, behaviour=None):
        self.rule = rule
        self.what = what
        self.status = status        # discharged | violated | undecided
        self.site = site
        self.key = key or what
        self.detail = detail
        self.behaviour = behaviour

    def as_dict(self):
        d = {'rule': self.rule, 'obligation': self.what, 'status': self.status}
        if self.site:
            d['site'] = self.site
        if self.detail:
            d['detail'] = self.detail
        if self.status == 'violated':
            d['key'] = self.key
            if self.behaviour:
                d['behaviour'] = self.behaviour
        return d


class Analysis:
    """Shared context handed to the property modules."""

    def __init__(self, repo, prop, tier='quick', seed=0, overrides=None):
        self.repo = repo
        self.prop = prop
        self.tier = tier
        self.seed = seed
        self.model = Model(repo, overrides=overrides) if overrides else Model(repo)
        self.resolver = Resolver(self.model)
        self.obligations = []
        self.counters = {'functions': set(), 'paths': 0, 'call_sites': 0, 'cases': 0}
        self.samples = []
        self.notes = []

    # -- engine access ---------------------------------------------------------
    def enum(self, **kw):
        r = self.resolver
        kw.setdefault('const_expr', r.const_expr)
        kw.setdefault('resolve', r.resolve)
        kw.setdefault('exc_parents', r.exc_parents)
        if self.tier == 'thorough':
            kw.setdefault('loop_bound', 2)
        keep = kw.pop('keep', None)
        transparent = kw.pop('transparent', 'default')
        fresh_lists = kw.pop('fresh_lists', False)
        en = Enumerator(self.model, **kw)
        en.fresh_lists = fresh_lists
        en.nonnull = r.returns_instance
        if transparent == 'default':
            anchors = self.anchors()
            en.transparent = lambda f: f.qualname not in anchors and not _memoised(f)
        elif transparent is not None:
            en.transparent = transparent
        if keep is not None:
            names = set(keep) if not callable(keep) else None
            en.keep = keep if callable(keep) else (lambda n, v, f: n in names)
        return en

    _anchors = None

    def anchors(self):
        if Analysis._anchors is None:
            path = os.path.join(VERIF, 'spec', 'anchors.json')
            Analysis._anchors = set(json.load(open(path))['functions'])
        return Analysis._anchors

    def paths(self, en, qual, ctx=None, args=None):
        fi = self.model.func(qual) if isinstance(qual, str) else qual
        cx = self.model.cls(ctx) if isinstance(ctx, str) else ctx
        ps = en.run(fi, cx, args=args)
        self.counters['functions'].add(fi.qualname)
        self.counters['paths'] += len(ps)
        self.counters['call_sites'] += sum(len(p.calls()) for p in ps)
        return ps

    def func(self, qual):
        fi = self.model.func(qual)
        self.counters['functions'].add(fi.qualname)
        return fi

    def site(self, fi, node=None):
        ln = getattr(node, 'lineno', None) or fi.lineno
        return '%s:%s (%s)' % (fi.relpath, ln, fi.qualname)

    # -- obligations -------------------------------------------------------------
    def ok(self, rule, what, site=None, detail=None):
        self.obligations.append(Obligation(rule, what, 'discharged', site, None, detail))

    def violated(self, rule, what, site=None, key=None, detail=None, behaviour=None):
        detail = _plain(detail)
        self.obligations.append(Obligation(rule, what, 'violated', site, key, detail, behaviour))

    def undecided(self, rule, what, site=None, detail=None):
        self.obligations.append(Obligation(rule, what, 'undecided', site, None, _plain(detail)))

    def check(self, cond, rule, what, site=None, key=None, detail=None, behaviour=None):
        if cond:
            self.ok(rule, what, site, detail if isinstance(detail, str) and len(detail) < 200
                    else None)
        else:
            self.violated(rule, what, site, key, detail, behaviour)
        return bool(cond)

    def floor(self, rule, what, count, minimum):
        """A rule that matches fewer sites than confirmed by hand is broken, not passing."""
        if count == 0 and minimum >= 1:
            # nothing at all has the shape: the behaviour the rule is about is gone from the
            # function (no path routes to the server any more, no path fires the event, ...)
            self.violated(rule + '.present' if '.' not in rule else rule,
                          'the code still does what the rule is about: %s' % what, None,
                          'absent:%s' % what,
                          'no path / site of the analysed functions matches (%d needed)' % minimum,
                          'the behaviour the rule checks is not there any more')
            return
        if count < minimum:
            raise AnalysisError('%s: instance floor not met for %s: matched %d < %d'
                                % (rule, what, count, minimum))

    def require(self, rule, what, count, minimum, site=None, key=None, behaviour=None):
        """Like floor(), for constructs whose absence is itself the defect (a success path,
        a refusal branch): the function exists but no path of it has the required shape."""
        if count < minimum:
            self.violated(rule, what, site, key, 'matched %d path(s), need %d' % (count, minimum),
                          behaviour)
            return False
        return True

    def sample(self, s):
        if len(self.samples) < 12:
            self.samples.append(s)


def load_known(prop):
    path = os.path.join(VERIF, 'known_findings.json')
    if not os.path.exists(path):
        return [], []
    data = json.load(open(path))
    known = [k for k in data.get('known', []) if k.get('property') == prop]
    fixed = [k for k in data.get('fixed', []) if k.get('property') == prop]
    return known, fixed


def run_property(prop, module, tier, seed, repo, explain=None, overrides=None, quiet=False,
                 write_evidence=True):
    """Run one property module; returns (exit_code, analysis)."""
    t0 = time.time()
    out = sys.stdout
    try:
        A = Analysis(repo, prop, tier, seed, overrides=overrides)
        module.check(A)
    except AnalysisError as e:
        if not quiet:
            print('ANALYSIS-ERROR property=%s %s' % (prop, e))
        return 2, None
    except RecursionError as e:
        if not quiet:
            print('ANALYSIS-ERROR property=%s recursion limit: %s' % (prop, e))
        return 2, None
    except Exception as e:     # a traceback is an analysis failure, never a violation
        import traceback
        if not quiet:
            traceback.print_exc()
            print('ANALYSIS-ERROR property=%s %s: %s' % (prop, type(e).__name__, e))
        return 2, None
    wall = time.time() - t0
    known, fixed = load_known(prop)
    viol = [o for o in A.obligations if o.status == 'violated']
    und = [o for o in A.obligations if o.status == 'undecided']
    new_viol = []
    matched_known = []
    seen_keys = {}
    for o in viol:
        k = next((k for k in known if k.get('rule') == o.rule and k.get('key') == o.key), None)
        if k is not None:
            if (o.rule, o.key) not in seen_keys:
                matched_known.append((o, k))
        elif (o.rule, o.key) not in seen_keys:
            new_viol.append(o)
        seen_keys[(o.rule, o.key)] = seen_keys.get((o.rule, o.key), 0) + 1
    if quiet:
        return (1 if new_viol else (2 if und else 0)), A
    for o, k in matched_known:
        print('KNOWN-FINDING: property=%s %s [%s] %s' % (prop, k.get('what', o.what), o.rule,
                                                        o.site or ''))
    code = 0
    os.makedirs(os.path.join(VERIF, 'out'), exist_ok=True)
    for i, o in enumerate(new_viol):
        path = os.path.join(VERIF, 'out', '%s-%d.json' % (prop, i))
        with open(path, 'w') as f:
            json.dump({'property': prop, 'rule': o.rule, 'obligation': o.what, 'key': o.key,
                       'site': o.site, 'detail': o.detail, 'behaviour': o.behaviour,
                       'repo': repo, 'tier': tier}, f, indent=1, default=str)
        cnt = seen_keys.get((o.rule, o.key), 1)
        print('  violated: [%s] %s%s' % (o.rule, o.what,
                                         ' (%d paths/cases)' % cnt if cnt > 1 else ''))
        if o.site:
            print('    at %s' % o.site)
        if o.detail:
            for line in (o.detail if isinstance(o.detail, list) else str(o.detail).split('\n'))[:30]:
                print('      %s' % line)
        if o.behaviour:
            print('    consequence: %s' % o.behaviour)
        print('VIOLATION property=%s replay=%s' % (prop, path))
        code = 1
    if und and code == 0:
        for o in und[:10]:
            print('  undecided: [%s] %s %s -- %s' % (o.rule, o.what, o.site or '', o.detail or ''))
        print('ANALYSIS-ERROR property=%s %d obligation(s) could not be decided' % (prop, len(und)))
        code = 2
    if write_evidence:
        write_evidence_file(A, module, wall, len(new_viol), matched_known, code)
    n = len(A.obligations)
    print('%s %s: %d obligations, %d discharged, %d violated (%d known), %d undecided; '
          '%d functions, %d paths; %.2fs'
          % (prop, tier, n, n - len(viol) - len(und), len(viol), len(matched_known), len(und),
             len(A.counters['functions']), A.counters['paths'], wall))
    return code, A


def write_evidence_file(A, module, wall, n_viol, matched_known, code):
    meta = getattr(module, 'META', {})
    n = len(A.obligations)
    disc = sum(1 for o in A.obligations if o.status == 'discharged')
    distinct = len({(o.rule, o.what) for o in A.obligations})
    samples = list(A.samples)
    for o in A.obligations:
        if len(samples) >= 14:
            break
        if o.site:
            samples.append(o.as_dict())
    if not samples:
        samples = [o.as_dict() for o in A.obligations[:5]]
    level = meta.get('level', 'other')
    cov = {
        'explanation': meta.get('explanation', ''),
        'obligations': n,
        'discharged': disc + len(matched_known),
        'checker_cmd': './check %s --tier %s' % (A.prop, A.tier),
        'trusted_base': meta.get('trusted_base', []),
        'evaluations': n,
        'distinct_nontrivial': distinct,
        'rule': 'one evaluation = one obligation generated by a rule instance on the current '
                'source (a call site, a path, an abstract case or a table row); distinct = '
                'distinct (rule, obligation text) pairs; non-trivial = the rule matched at '
                'least one construct of /repo (rules that match nothing fail the instance '
                'floor and abort the run)',
        'samples': samples,
        'functions_analysed': sorted(A.counters['functions']),
        'paths_enumerated': A.counters['paths'],
        'call_sites_on_paths': A.counters['call_sites'],
        'abstract_cases': A.counters['cases'],
        'files_parsed': len(A.model.modules),
        'source_lines': A.model.n_lines,
        'source_digest': A.model.digest.hexdigest()[:16],
        'resolver': dict(A.resolver.stats),
        'not_decided': meta.get('not_decided', []),
        'known_findings_matched': [k.get('id') or k.get('key') for _, k in matched_known],
        'exhaustive': bool(meta.get('exhaustive', False)),
        'notes': A.notes,
    }
    ev = {
        'property_id': A.prop,
        'tier': A.tier,
        'seed': int(A.seed),
        'level': level,
        'coverage': cov,
        'assumptions': meta.get('assumptions', []),
        'wall_s': round(wall, 3),
        'violations': n_viol,
    }
    os.makedirs(os.path.join(VERIF, 'evidence'), exist_ok=True)
    with open(os.path.join(VERIF, 'evidence', A.prop + '.json'), 'w') as f:
        json.dump(ev, f, indent=1, default=str)
