"""Program model: modules, classes, functions, MRO, constants, imports.

Built from the source text of <repo>/src/engineio/**.py as it is on disk.
"""
import ast
import hashlib
import os


def exc_parents_of(name, parents):
    """Direct base names of exception class `name` (a str entry is a single base)."""
    v = parents.get(name)
    if v is None:
        return ()
    return (v,) if isinstance(v, str) else tuple(v)


def exc_is_subclass(name, base, parents):
    """Is exception class `name` the class `base` or derived from it?  `parents` maps a class
    name to its base name or to a tuple of base names (multiple inheritance)."""
    seen = set()
    work = [name]
    while work:
        n = work.pop()
        if n is None or n in seen:
            continue
        if n == base:
            return True
        seen.add(n)
        work.extend(exc_parents_of(n, parents))
    return False


class AnalysisError(Exception):
    """The analysis cannot decide (vanished anchor, shape not understood).

    Mapped to exit code 2 / an ``ANALYSIS-ERROR`` line, never to a VIOLATION.
    """


class FuncInfo:
    def __init__(self, name, node, module, cls=None, parent=None):
        self.name = name
        self.node = node
        self.module = module
        self.cls = cls              # owning ClassInfo (methods and their nested functions)
        self.parent = parent        # enclosing FuncInfo for nested functions
        self.nested = {}            # name -> FuncInfo
        self.nested_classes = {}    # name -> ClassInfo
        self.is_async = isinstance(node, ast.AsyncFunctionDef)
        if parent is not None:
            self.qualname = parent.qualname + '.<locals>.' + name
        elif cls is not None:
            self.qualname = cls.qualname + '.' + name
        else:
            self.qualname = module.name + '.' + name

    @property
    def lineno(self):
        return self.node.lineno

    @property
    def relpath(self):
        return self.module.relpath

    def params(self):
        a = self.node.args
        return [x.arg for x in a.posonlyargs + a.args]

    def defaults(self):
        """param name -> default expr (positional and kw-only)."""
        a = self.node.args
        pos = a.posonlyargs + a.args
        out = {}
        for p, d in zip(pos[len(pos) - len(a.defaults):], a.defaults):
            out[p.arg] = d
        for p, d in zip(a.kwonlyargs, a.kw_defaults):
            if d is not None:
                out[p.arg] = d
        return out

    def __repr__(self):
        return '<func %s>' % self.qualname


class ClassInfo:
    def __init__(self, name, node, module, outer=None):
        self.name = name
        self.node = node
        self.module = module
        self.outer = outer
        self.qualname = (outer.qualname + '.' if outer is not None
                         else module.name + '.') + name
        self.methods = {}
        self.attrs = {}             # class-level simple assignments name -> expr
        self.nested_classes = {}
        self.base_exprs = list(node.bases)
        self.bases = []             # resolved ClassInfo (repo classes only)
        self.external_bases = []    # dotted text of bases that are not repo classes

    def __repr__(self):
        return '<class %s>' % self.qualname


# positional parameter names of standard-library callables the repository calls; a call that
# passes these by keyword is rewritten to the positional form when the module is loaded, so
# that ``x.to_bytes(3, 'big')`` and ``x.to_bytes(length=3, byteorder='big')`` are one term
STDLIB_SIGNATURES = {
    'token_bytes': ['nbytes'],
    'to_bytes': ['length', 'byteorder'],
    'from_bytes': ['bytes', 'byteorder'],
    'decode': ['encoding', 'errors'],
    'b64encode': ['s', 'altchars'],
    'b64decode': ['s', 'altchars'],
    'urlsafe_b64encode': ['s'],
    'urlsafe_b64decode': ['s'],
    'parse_qs': ['qs', 'keep_blank_values'],
    'urlparse': ['url', 'scheme'],
}


class _CanonCalls(ast.NodeTransformer):
    def visit_Call(self, node):
        self.generic_visit(node)
        f = node.func
        name = f.attr if isinstance(f, ast.Attribute) else (f.id if isinstance(f, ast.Name)
                                                            else None)
        sig = STDLIB_SIGNATURES.get(name)
        if sig and node.keywords and not any(isinstance(a, ast.Starred) for a in node.args) \
                and all(k.arg is not None for k in node.keywords):
            n = len(node.args)
            names = [k.arg for k in node.keywords]
            want = sig[n:n + len(names)]
            if len(want) == len(names) and set(want) == set(names):
                kw = {k.arg: k.value for k in node.keywords}
                node.args = list(node.args) + [kw[x] for x in want]
                node.keywords = []
        return node


    def visit_BinOp(self, node):
        # ``1 + x`` is ``x + 1``: commutative arithmetic with a *numeric* literal on the left
        # (a str/bytes literal would make + a concatenation) carries the literal on the right
        self.generic_visit(node)
        if isinstance(node.op, (ast.Add, ast.Mult, ast.BitAnd, ast.BitOr, ast.BitXor)) and \
                isinstance(node.left, ast.Constant) and \
                type(node.left.value) in (int, float) and \
                not isinstance(node.right, ast.Constant):
            node.left, node.right = node.right, node.left
        return node

    def visit_Compare(self, node):
        # ``CONST == x`` and ``x == CONST`` are one term: symmetric comparisons carry their
        # constant-like operand (literal, ALL_CAPS name such as packet.PONG) on the right
        self.generic_visit(node)
        if len(node.ops) == 1 and isinstance(node.ops[0], (ast.Eq, ast.NotEq, ast.Is, ast.IsNot)):
            l, r = node.left, node.comparators[0]
            cl, cr = _constant_like(l), _constant_like(r)
            if (cl and not cr) or (not cl and not cr and ast.unparse(l) > ast.unparse(r)):
                node.left, node.comparators = r, [l]
        return node


def _constant_like(e):
    if isinstance(e, ast.Constant):
        return True
    if isinstance(e, (ast.List, ast.Tuple, ast.Set)):
        return all(_constant_like(x) for x in e.elts)
    if isinstance(e, ast.UnaryOp):
        return _constant_like(e.operand)
    if isinstance(e, ast.Attribute):
        return e.attr.isupper() and (isinstance(e.value, ast.Name) or _constant_like(e.value))
    if isinstance(e, ast.Name):
        return e.id.isupper() and len(e.id) > 1
    return False


class ModuleInfo:
    def __init__(self, name, path, relpath, src):
        self.name = name
        self.path = path
        self.relpath = relpath
        self.src = src
        self.lines = src.splitlines()
        self.tree = _CanonCalls().visit(ast.parse(src, filename=path))
        self.classes = {}
        self.functions = {}
        self.consts = {}            # module-level simple assignments name -> expr
        self.imports = {}           # local alias -> ('module', dotted) | ('symbol', dotted_module, name)


def _dotted(expr):
    parts = []
    while isinstance(expr, ast.Attribute):
        parts.append(expr.attr)
        expr = expr.value
    if isinstance(expr, ast.Name):
        parts.append(expr.id)
        return '.'.join(reversed(parts))
    return None


class Model:
    PKG = 'engineio'

    def __init__(self, repo_root, overrides=None):
        """overrides: dict path-relative-to-src/engineio -> source text (in-memory edits used by
        the self-validation catalogue; nothing is written under the repository)."""
        overrides = overrides or {}
        self.repo_root = os.path.abspath(repo_root)
        self.src_root = os.path.join(self.repo_root, 'src', 'engineio')
        if not os.path.isdir(self.src_root):
            raise AnalysisError('source root %s not found' % self.src_root)
        self.modules = {}
        self.digest = hashlib.sha256()
        for dirpath, dirnames, filenames in sorted(os.walk(self.src_root)):
            dirnames.sort()
            for fn in sorted(filenames):
                if not fn.endswith('.py'):
                    continue
                path = os.path.join(dirpath, fn)
                rel = os.path.relpath(path, self.src_root)
                name = rel[:-3].replace(os.sep, '.')
                if name.endswith('.__init__'):
                    name = name[:-len('.__init__')]
                if rel in overrides:
                    src = overrides[rel]
                else:
                    with open(path, encoding='utf-8') as f:
                        src = f.read()
                self.digest.update(rel.encode() + b'\0' + src.encode() + b'\0')
                try:
                    mi = ModuleInfo(name, path, os.path.join('src', 'engineio', rel), src)
                except SyntaxError as e:
                    raise AnalysisError('syntax error in %s: %s' % (rel, e))
                self.modules[name] = mi
        for mi in self.modules.values():
            self._index_module(mi)
        for mi in self.modules.values():
            for ci in self._all_classes(mi):
                self._resolve_bases(ci)
        self.n_lines = sum(len(m.lines) for m in self.modules.values())

    # ---- indexing -------------------------------------------------------
    def _index_module(self, mi):
        self._index_body(mi.tree.body, mi, None, None, mi)

    def _index_body(self, body, mi, cls, func, container):
        for st in body:
            if isinstance(st, (ast.FunctionDef, ast.AsyncFunctionDef)):
                fi = FuncInfo(st.name, st, mi, cls=cls if func is None else func.cls,
                              parent=func)
                if func is not None:
                    func.nested[st.name] = fi
                elif cls is not None:
                    cls.methods[st.name] = fi
                else:
                    mi.functions[st.name] = fi
                self._index_func_body(st.body, mi, fi)
            elif isinstance(st, ast.ClassDef):
                ci = ClassInfo(st.name, st, mi, outer=cls)
                if func is not None:
                    func.nested_classes[st.name] = ci
                elif cls is not None:
                    cls.nested_classes[st.name] = ci
                else:
                    mi.classes[st.name] = ci
                self._index_body(st.body, mi, ci, None, ci)
            elif isinstance(st, ast.Assign) and func is None:
                for t in st.targets:
                    if isinstance(t, ast.Name):
                        (cls.attrs if cls is not None else mi.consts)[t.id] = st.value
                    elif isinstance(t, ast.Tuple) and isinstance(st.value, ast.Tuple) \
                            and len(t.elts) == len(st.value.elts):
                        for a, b in zip(t.elts, st.value.elts):
                            if isinstance(a, ast.Name):
                                (cls.attrs if cls is not None else mi.consts)[a.id] = b
            elif isinstance(st, ast.Import) and func is None and cls is None:
                for al in st.names:
                    mi.imports[al.asname or al.name.split('.')[0]] = ('module', al.name)
            elif isinstance(st, ast.ImportFrom) and func is None and cls is None:
                base = st.module or ''
                if st.level:
                    pkg = (self.PKG + '.' + mi.name).split('.')
                    pkg = pkg[:len(pkg) - st.level]
                    base = '.'.join(pkg + ([st.module] if st.module else []))
                for al in st.names:
                    mi.imports[al.asname or al.name] = ('from', base, al.name)
            elif isinstance(st, (ast.If, ast.Try)) and func is None:
                # module/class level conditional definitions (driver modules)
                if isinstance(st, ast.If):
                    bodies = [st.body, st.orelse]
                else:
                    bodies = [st.body, st.orelse, st.finalbody] + [h.body for h in st.handlers]
                for b in bodies:
                    self._index_body(b, mi, cls, func, container)

    def _index_func_body(self, body, mi, fi):
        for st in body:
            for node in self._walk_shallow(st):
                if isinstance(node, (ast.FunctionDef, ast.AsyncFunctionDef)):
                    sub = FuncInfo(node.name, node, mi, cls=fi.cls, parent=fi)
                    fi.nested[node.name] = sub
                    self._index_func_body(node.body, mi, sub)
                elif isinstance(node, ast.ClassDef):
                    ci = ClassInfo(node.name, node, mi, outer=None)
                    ci.qualname = fi.qualname + '.<locals>.' + node.name
                    fi.nested_classes[node.name] = ci
                    self._index_body(node.body, mi, ci, None, ci)

    @staticmethod
    def _walk_shallow(st):
        """Yield st and its descendants; nested defs are yielded but not entered."""
        stack = [st]
        while stack:
            n = stack.pop()
            yield n
            if isinstance(n, (ast.FunctionDef, ast.AsyncFunctionDef, ast.ClassDef, ast.Lambda)):
                continue
            stack.extend(ast.iter_child_nodes(n))

    def _all_classes(self, mi):
        out = []

        def rec(ci):
            out.append(ci)
            for c in ci.nested_classes.values():
                rec(c)
            for m in ci.methods.values():
                recf(m)

        def recf(fi):
            for c in fi.nested_classes.values():
                rec(c)
            for f in fi.nested.values():
                recf(f)
        for c in mi.classes.values():
            rec(c)
        for f in mi.functions.values():
            recf(f)
        return out

    # ---- name resolution ------------------------------------------------
    def resolve_module_alias(self, mi, alias):
        """Return repo ModuleInfo that local name `alias` refers to in module mi, or None."""
        imp = mi.imports.get(alias)
        if not imp:
            return None
        if imp[0] == 'module':
            dotted = imp[1]
        else:
            dotted = (imp[1] + '.' if imp[1] else '') + imp[2]
        if dotted == self.PKG:
            return self.modules.get('')
        if dotted.startswith(self.PKG + '.'):
            return self.modules.get(dotted[len(self.PKG) + 1:])
        return None

    def external_name(self, mi, alias):
        """Dotted external name for a local alias (e.g. 'urllib', 'json.loads'), or None."""
        imp = mi.imports.get(alias)
        if not imp:
            return None
        if imp[0] == 'module':
            return imp[1] if not imp[1].startswith(self.PKG) else None
        dotted = (imp[1] + '.' if imp[1] else '') + imp[2]
        return None if dotted.startswith(self.PKG) else dotted

    def resolve_symbol(self, mi, dotted):
        """Resolve dotted text used inside module mi to a repo ClassInfo/FuncInfo/const expr.

        Returns ('class', ci) | ('func', fi) | ('const', expr, module) | ('module', mi) | None.
        """
        parts = dotted.split('.')
        head = parts[0]
        cur = None
        if head in mi.classes:
            cur = ('class', mi.classes[head])
        elif head in mi.functions:
            cur = ('func', mi.functions[head])
        elif head in mi.consts and head not in mi.imports:
            cur = ('const', mi.consts[head], mi)
        elif head in mi.imports:
            imp = mi.imports[head]
            m = self.resolve_module_alias(mi, head)
            if m is not None:
                cur = ('module', m)
            elif imp[0] == 'from' and imp[1].startswith(self.PKG):
                src = self.modules.get(imp[1][len(self.PKG) + 1:] if imp[1] != self.PKG else '')
                if src is not None:
                    return self.resolve_symbol(src, '.'.join([imp[2]] + parts[1:]))
        if cur is None:
            return None
        for p in parts[1:]:
            if cur[0] == 'module':
                m = cur[1]
                if p in m.classes:
                    cur = ('class', m.classes[p])
                elif p in m.functions:
                    cur = ('func', m.functions[p])
                elif p in m.consts:
                    cur = ('const', m.consts[p], m)
                elif p in m.imports:
                    r = self.resolve_symbol(m, p)
                    if r is None:
                        return None
                    cur = r
                else:
                    return None
            elif cur[0] == 'class':
                ci = cur[1]
                found = None
                for k in self.mro(ci):
                    if p in k.methods:
                        found = ('func', k.methods[p])
                        break
                    if p in k.attrs:
                        found = ('const', k.attrs[p], k.module)
                        break
                    if p in k.nested_classes:
                        found = ('class', k.nested_classes[p])
                        break
                if found is None:
                    return None
                cur = found
            else:
                return None
        return cur

    def _resolve_bases(self, ci):
        for b in ci.base_exprs:
            d = _dotted(b)
            r = self.resolve_symbol(ci.module, d) if d else None
            if r and r[0] == 'class':
                ci.bases.append(r[1])
            else:
                ci.external_bases.append(d or ast.unparse(b))

    def mro(self, ci):
        out = [ci]
        for b in ci.bases:       # single inheritance in this package
            for k in self.mro(b):
                if k not in out:
                    out.append(k)
        return out

    def find_method(self, ci, name):
        for k in self.mro(ci):
            if name in k.methods:
                return k.methods[name]
        return None

    def class_attr(self, ci, name):
        for k in self.mro(ci):
            if name in k.attrs:
                return k.attrs[name], k
        return None, None

    # ---- anchors --------------------------------------------------------
    def module(self, name):
        if name not in self.modules:
            raise AnalysisError('anchor module %r vanished' % name)
        return self.modules[name]

    def cls(self, qual):
        mod, _, name = qual.rpartition('.')
        mi = self.module(mod)
        if name not in mi.classes:
            raise AnalysisError('anchor class %r vanished' % qual)
        return mi.classes[name]

    def func(self, qual, ctx=None):
        """'mod.func', 'mod.Class.method' (looked up through the MRO), 'mod.Class.m.<locals>.f'."""
        parts = qual.split('.')
        # nested: split on <locals>
        segs = qual.split('.<locals>.')
        head = segs[0].split('.')
        fi = None
        # module may contain dots (async_drivers.asgi)
        for i in range(len(head) - 1, 0, -1):
            mod = '.'.join(head[:i])
            if mod in self.modules:
                mi = self.modules[mod]
                rest = head[i:]
                if len(rest) == 1 and rest[0] in mi.functions:
                    fi = mi.functions[rest[0]]
                elif len(rest) == 2 and rest[0] in mi.classes:
                    fi = self.find_method(mi.classes[rest[0]], rest[1])
                if fi is not None:
                    break
        if fi is None:
            raise AnalysisError('anchor function %r vanished' % qual)
        for s in segs[1:]:
            if s not in fi.nested:
                raise AnalysisError('anchor function %r vanished (nested %r)' % (qual, s))
            fi = fi.nested[s]
        return fi

    def all_funcs(self):
        def rec(fi):
            yield fi
            for f in fi.nested.values():
                yield from rec(f)
            for c in fi.nested_classes.values():
                yield from recc(c)

        def recc(ci):
            for m in ci.methods.values():
                yield from rec(m)
            for c in ci.nested_classes.values():
                yield from recc(c)
        for mi in self.modules.values():
            for f in mi.functions.values():
                yield from rec(f)
            for c in mi.classes.values():
                yield from recc(c)

    def const_value(self, mi, dotted):
        """Literal value of a module/class constant reachable from module mi, else AnalysisError."""
        r = self.resolve_symbol(mi, dotted)
        if not r or r[0] != 'const':
            raise AnalysisError('constant %s not resolvable in %s' % (dotted, mi.name))
        try:
            return ast.literal_eval(r[1])
        except Exception:
            raise AnalysisError('constant %s in %s is not a literal' % (dotted, mi.name))

    def stable_consts(self, mi):
        """name -> ast.Constant / Tuple of Constants for module-level names that are bound
        exactly once in the module (top-level statement, never rebound, never declared
        ``global`` in a function) to an immutable literal, possibly built from other such
        names with ``+``.  A reference to such a name *is* the literal."""
        cache = self.__dict__.setdefault('_stable', {})
        if mi.name in cache:
            return cache[mi.name]
        stores = {}
        for n in ast.walk(mi.tree):
            if isinstance(n, ast.Name) and isinstance(n.ctx, (ast.Store, ast.Del)):
                stores[n.id] = stores.get(n.id, 0) + 1
            elif isinstance(n, (ast.Global, ast.Nonlocal)):
                for x in n.names:
                    stores[x] = stores.get(x, 0) + 2
            elif isinstance(n, (ast.Import, ast.ImportFrom)):
                for al in n.names:
                    x = al.asname or al.name.split('.')[0]
                    stores[x] = stores.get(x, 0) + 2
            elif isinstance(n, (ast.FunctionDef, ast.AsyncFunctionDef, ast.ClassDef)):
                stores[n.name] = stores.get(n.name, 0) + 2
                if not isinstance(n, ast.ClassDef):
                    for a in ast.walk(n.args):
                        if isinstance(a, ast.arg):
                            # a parameter of the same name shadows it somewhere: keep out
                            stores[a.arg] = stores.get(a.arg, 0) + 2
        out = {}

        def fold(e, depth=0):
            if isinstance(e, ast.Constant) and isinstance(e.value, (str, bytes, int, float)) \
                    and not isinstance(e.value, bool):
                return e
            if isinstance(e, ast.Name) and e.id in out:
                return out[e.id]
            if isinstance(e, ast.Tuple) and depth == 0:
                parts = [fold(x, 1) for x in e.elts]
                if all(p is not None for p in parts):
                    return ast.copy_location(ast.Tuple(parts, ast.Load()), e)
                return None
            if isinstance(e, ast.BinOp) and isinstance(e.op, ast.Add):
                a, b = fold(e.left, 1), fold(e.right, 1)
                if isinstance(a, ast.Constant) and isinstance(b, ast.Constant) and \
                        type(a.value) is type(b.value) and isinstance(a.value, (str, bytes)):
                    return ast.copy_location(ast.Constant(a.value + b.value), e)
            return None
        for st in mi.tree.body:
            if isinstance(st, ast.Assign) and len(st.targets) == 1 and \
                    isinstance(st.targets[0], ast.Name) and stores.get(st.targets[0].id) == 1:
                v = fold(st.value)
                if v is not None:
                    out[st.targets[0].id] = v
        cache[mi.name] = out
        return out

    def loc(self, fi_or_mi, node):
        rel = fi_or_mi.relpath
        return '%s:%d' % (rel, getattr(node, 'lineno', 0))
