"""Abstract values and a small abstract expression evaluator (finite kind lattice +
constants).  Used to prune branches under an abstract input case: the evaluator never calls
into the analysed program and only knows the semantics of the handful of builtin tests the
package uses (isinstance, type(..) is, is None, ==, in, len(..) == 0, truthiness, not/and/or,
integer orderings on constants)."""
import ast

from .expr import txt, unawait

KINDS = ('str', 'bytes', 'bytearray', 'dict', 'list', 'tuple', 'none', 'int', 'bool',
         'float', 'other', 'any')      # 'any': kind unknown, only attrs (truthiness) known


class Const:
    """A known Python literal value."""
    __slots__ = ('v',)

    def __init__(self, v):
        self.v = v

    def __repr__(self):
        return 'Const(%r)' % (self.v,)


class Kind:
    """A value of a known builtin kind.  attrs: optional facts, e.g. empty=True/False,
    first='b'|'digit'|'other' (first character class of a str), truthy=True/False."""
    __slots__ = ('k', 'attrs')

    def __init__(self, k, **attrs):
        assert k in KINDS, k
        self.k = k
        self.attrs = attrs

    def __repr__(self):
        return 'Kind(%s%s)' % (self.k, ''.join(', %s=%r' % kv for kv in sorted(self.attrs.items())))


def kind_of_const(v):
    if v is None:
        return 'none'
    if isinstance(v, bool):
        return 'bool'
    for t, k in ((int, 'int'), (float, 'float'), (str, 'str'), (bytes, 'bytes'),
                 (bytearray, 'bytearray'), (dict, 'dict'), (list, 'list'), (tuple, 'tuple')):
        if isinstance(v, t):
            return k
    return 'other'


_ISINSTANCE = {
    'str': {'str'}, 'bytes': {'bytes'}, 'bytearray': {'bytearray'}, 'dict': {'dict'},
    'list': {'list'}, 'tuple': {'tuple'}, 'int': {'int', 'bool'}, 'bool': {'bool'},
    'float': {'float'}, 'object': set(KINDS),
}


class AbsEval:
    def __init__(self, assume=None, const_expr=None):
        """assume(expr) -> Const|Kind|None ; const_expr(expr) -> ast expr of a repo constant
        or None."""
        self.assume = assume or (lambda e: None)
        self.const_expr = const_expr or (lambda e: None)

    # ------------------------------------------------------------------
    def eval(self, e, _depth=0):
        e = unawait(e)
        if _depth > 12:
            return None
        a = self.assume(e)
        if a is not None:
            return a
        if isinstance(e, ast.Constant):
            return Const(e.value)
        if isinstance(e, (ast.Tuple, ast.List)):
            vals = [self.eval(x, _depth + 1) for x in e.elts]
            if all(isinstance(v, Const) for v in vals):
                return Const((tuple if isinstance(e, ast.Tuple) else list)(v.v for v in vals))
            return Kind('tuple' if isinstance(e, ast.Tuple) else 'list',
                        empty=not e.elts, truthy=bool(e.elts))
        if isinstance(e, ast.Dict):
            if e.keys and all(k_ is not None for k_ in e.keys):
                # a display of literals is a literal (lookup tables: ``{...}[k]``, ``k in {...}``)
                ks = [self.eval(k_, _depth + 1) for k_ in e.keys]
                vs = [self.eval(v_, _depth + 1) for v_ in e.values]
                if all(isinstance(x, Const) for x in ks + vs):
                    try:
                        return Const({k_.v: v_.v for k_, v_ in zip(ks, vs)})
                    except TypeError:
                        pass
            return Kind('dict', empty=not e.keys, truthy=bool(e.keys))
        if isinstance(e, ast.JoinedStr):
            # an f-string of literals folds to a literal (plain {x} / {x!s} fields only)
            parts = []
            for v in e.values:
                if isinstance(v, ast.Constant):
                    parts.append(str(v.value))
                elif isinstance(v, ast.FormattedValue) and v.format_spec is None and \
                        v.conversion in (-1, 115):
                    c = self.eval(v.value, _depth + 1)
                    if isinstance(c, Const) and isinstance(c.v, (str, int)) and \
                            not isinstance(c.v, bool):
                        parts.append(str(c.v))
                    else:
                        return Kind('str')
                else:
                    return Kind('str')
            return Const(''.join(parts))
        if isinstance(e, (ast.Name, ast.Attribute)):
            c = self.const_expr(e)
            if c is not None:
                return self.eval(c, _depth + 1)
            return None
        if isinstance(e, ast.UnaryOp):
            if isinstance(e.op, ast.Not):
                t = self.truth(e.operand, _depth + 1)
                return None if t is None else Const(not t)
            if isinstance(e.op, ast.USub):
                v = self.eval(e.operand, _depth + 1)
                if isinstance(v, Const) and isinstance(v.v, (int, float)):
                    return Const(-v.v)
            return None
        if isinstance(e, ast.BoolOp):
            is_and = isinstance(e.op, ast.And)
            last = None
            for v in e.values:
                t = self.truth(v, _depth + 1)
                if t is None:
                    return None
                last = self.eval(v, _depth + 1)
                if is_and and not t:
                    return last if last is not None else Const(False)
                if not is_and and t:
                    return last if last is not None else Const(True)
            return last
        if isinstance(e, ast.IfExp):
            t = self.truth(e.test, _depth + 1)
            if t is None:
                a, b = self.eval(e.body, _depth + 1), self.eval(e.orelse, _depth + 1)
                if isinstance(a, Const) and isinstance(b, Const) and type(a.v) is type(b.v) \
                        and a.v == b.v:
                    return a
                return None
            return self.eval(e.body if t else e.orelse, _depth + 1)
        if isinstance(e, ast.Compare):
            t = self._compare(e, _depth)
            return None if t is None else Const(t)
        if isinstance(e, ast.Call):
            return self._call(e, _depth)
        if isinstance(e, ast.BinOp):
            a, b = self.eval(e.left, _depth + 1), self.eval(e.right, _depth + 1)
            if isinstance(a, Const) and isinstance(b, Const):
                try:
                    if isinstance(e.op, ast.Add):
                        return Const(a.v + b.v)
                    if isinstance(e.op, ast.Sub):
                        return Const(a.v - b.v)
                    if isinstance(e.op, ast.Mult) and isinstance(a.v, (int, float)) \
                            and isinstance(b.v, (int, float)):
                        return Const(a.v * b.v)
                    if isinstance(e.op, ast.Mod) and isinstance(a.v, str) and \
                            isinstance(b.v, (str, int, tuple)) and not isinstance(b.v, bool):
                        return Const(a.v % b.v)     # '%s' formatting of literals
                except Exception:
                    return None
            if isinstance(e.op, ast.Add):
                def seq(v):
                    if isinstance(v, Const) and isinstance(v.v, (str, bytes, list)):
                        return kind_of_const(v.v), (len(v.v) == 0)
                    if isinstance(v, Kind) and v.k in ('str', 'bytes', 'list'):
                        return v.k, v.attrs.get('empty')
                    return None, None
                ka, ea = seq(a)
                kb, eb = seq(b)
                k = ka or kb
                if k is not None and (ka is None or kb is None or ka == kb):
                    if ea is False or eb is False:
                        return Kind(k, empty=False, truthy=True)
                    if ea is True and eb is True:
                        return Kind(k, empty=True, truthy=False)
                    if ea is True and isinstance(b, Kind):
                        return b
                    if eb is True and isinstance(a, Kind):
                        return a
                    return Kind(k)
            return None
        if isinstance(e, ast.Subscript):
            v = self.eval(e.value, _depth + 1)
            i = self.eval(e.slice, _depth + 1) if not isinstance(e.slice, ast.Slice) else None
            if isinstance(v, Const) and isinstance(i, Const):
                try:
                    return Const(v.v[i.v])
                except Exception:
                    return None
            if isinstance(v, Kind) and v.k == 'str' and isinstance(i, Const) and i.v == 0 \
                    and 'first' in v.attrs:
                return Kind('str', first=v.attrs['first'], single=True)
            return None
        return None

    # ------------------------------------------------------------------
    def truth(self, e, _depth=0):
        e = unawait(e)
        if isinstance(e, ast.UnaryOp) and isinstance(e.op, ast.Not):
            t = self.truth(e.operand, _depth + 1)
            return None if t is None else (not t)
        if isinstance(e, ast.BoolOp):
            is_and = isinstance(e.op, ast.And)
            unknown = False
            for v in e.values:
                t = self.truth(v, _depth + 1)
                if t is None:
                    unknown = True
                elif is_and and not t:
                    return False
                elif not is_and and t:
                    return True
            return None if unknown else is_and
        v = self.eval(e, _depth)
        return self.truth_of(v)

    @staticmethod
    def truth_of(v):
        if isinstance(v, Const):
            try:
                return bool(v.v)
            except Exception:
                return None
        if isinstance(v, Kind):
            if v.k == 'none':
                return False
            if 'truthy' in v.attrs:
                return v.attrs['truthy']
            if 'empty' in v.attrs and v.k in ('str', 'bytes', 'bytearray', 'dict', 'list', 'tuple'):
                return not v.attrs['empty']
            if v.k in ('other', 'any'):
                return v.attrs.get('truthy')
        return None

    # ------------------------------------------------------------------
    def _type_names(self, e, _depth):
        """Set of kind names a class expression (or tuple of them) denotes, or None."""
        e = unawait(e)
        if isinstance(e, ast.Tuple):
            out = set()
            for x in e.elts:
                s = self._type_names(x, _depth + 1)
                if s is None:
                    return None
                out |= s
            return out
        if isinstance(e, ast.Name) and e.id in _ISINSTANCE:
            return set(_ISINSTANCE[e.id])
        c = self.const_expr(e)
        if c is not None and _depth < 12:
            return self._type_names(c, _depth + 1)
        return None

    def _exact_type_name(self, e, _depth):
        e = unawait(e)
        if isinstance(e, ast.Name) and e.id in _ISINSTANCE and e.id != 'object':
            return e.id
        return None

    def _kind(self, v):
        if isinstance(v, Const):
            return kind_of_const(v.v)
        if isinstance(v, Kind):
            return None if v.k == 'any' else v.k
        return None

    # pure methods of str / bytes literals that are folded (constant folding, no I/O, total)
    _FOLD_METHODS = ('startswith', 'endswith', 'strip', 'lstrip', 'rstrip', 'lower', 'upper',
                     'split', 'rsplit', 'replace', 'count', 'join', 'removeprefix',
                     'removesuffix', 'isdigit')

    def _call(self, e, _depth):
        f = e.func
        if isinstance(f, ast.Attribute) and f.attr in self._FOLD_METHODS and not e.keywords:
            recv = self.eval(f.value, _depth + 1)
            if isinstance(recv, Const) and isinstance(recv.v, (str, bytes)):
                args = [self.eval(a, _depth + 1) for a in e.args]
                if all(isinstance(a, Const) for a in args):
                    try:
                        return Const(getattr(recv.v, f.attr)(*[a.v for a in args]))
                    except Exception:
                        return None
            return None
        if isinstance(f, ast.Name):
            if f.id == 'isinstance' and len(e.args) == 2:
                k = self._kind(self.eval(e.args[0], _depth + 1))
                ts = self._type_names(e.args[1], _depth + 1)
                if k is None or ts is None or k == 'other':
                    if k == 'other' and ts is not None:
                        return Const(False)
                    return None
                return Const(k in ts)
            if f.id == 'callable' and len(e.args) == 1:
                k = self._kind(self.eval(e.args[0], _depth + 1))
                if k is not None and k != 'other':
                    return Const(False)
                return None
            if f.id == 'len' and len(e.args) == 1:
                v = self.eval(e.args[0], _depth + 1)
                if isinstance(v, Const):
                    try:
                        return Const(len(v.v))
                    except Exception:
                        return None
                if isinstance(v, Kind) and v.attrs.get('empty') is True:
                    return Const(0)
                if isinstance(v, Kind) and v.attrs.get('empty') is False:
                    return Kind('int', truthy=True, positive=True)
                return None
            if f.id in ('str', 'bytes', 'int', 'float', 'list', 'dict', 'bool'):
                if f.id == 'bool' and len(e.args) == 1 and not e.keywords:
                    v = self.eval(e.args[0], _depth + 1)
                    if isinstance(v, Const):
                        return Const(bool(v.v))
                    if isinstance(v, Kind) and v.attrs.get('truthy') is not None:
                        return Const(bool(v.attrs['truthy']))
                    return Kind('bool')
                if f.id == 'bytes' and len(e.args) == 1:
                    v = self.eval(e.args[0], _depth + 1)
                    if isinstance(v, Kind) and v.k in ('bytes', 'bytearray'):
                        return Kind('bytes', **v.attrs)
                return Kind(f.id)
            if f.id == 'type' and len(e.args) == 1:
                k = self._kind(self.eval(e.args[0], _depth + 1))
                if k and k != 'other':
                    return Kind('other', typeobj=k)
                return None
        return None

    def _compare(self, e, _depth):
        if len(e.ops) != 1:
            # a == b == c  -> conjunction
            left = e.left
            res = True
            for op, right in zip(e.ops, e.comparators):
                t = self._compare(ast.Compare(left=left, ops=[op], comparators=[right]), _depth)
                if t is None:
                    return None
                res = res and t
                left = right
            return res
        op = e.ops[0]
        a = self.eval(e.left, _depth + 1)
        b = self.eval(e.comparators[0], _depth + 1)
        neg = isinstance(op, (ast.IsNot, ast.NotEq, ast.NotIn))
        if isinstance(op, (ast.Is, ast.IsNot)):
            r = self._is(a, b, e)
        elif isinstance(op, (ast.Eq, ast.NotEq)):
            r = self._eq(a, b)
        elif isinstance(op, (ast.In, ast.NotIn)):
            r = self._in(a, b)
        else:
            r = self._order(op, a, b)
            neg = False
        if r is None:
            return None
        return (not r) if neg else r

    def _is(self, a, b, e):
        ka, kb = self._kind(a), self._kind(b)
        if ka == 'none' and kb == 'none':
            return True
        if (ka == 'none') != (kb == 'none') and ka is not None and kb is not None:
            return False
        if isinstance(a, Const) and isinstance(b, Const) and isinstance(a.v, bool) \
                and isinstance(b.v, bool):
            return a.v is b.v
        if isinstance(a, Const) and isinstance(b, Const) and \
                (isinstance(a.v, bool) != isinstance(b.v, bool)):
            return False
        # type(x) is T
        ta = a.attrs.get('typeobj') if isinstance(a, Kind) else None
        tb = self._exact_type_name(e.comparators[0], 0)
        if ta is not None and tb is not None:
            return ta == tb
        tb2 = b.attrs.get('typeobj') if isinstance(b, Kind) else None
        ta2 = self._exact_type_name(e.left, 0)
        if tb2 is not None and ta2 is not None:
            return ta2 == tb2
        if ka is not None and kb is not None and ka != kb and 'other' not in (ka, kb) \
                and isinstance(b, Const) and isinstance(b.v, bool):
            return False
        return None

    def _eq(self, a, b):
        if isinstance(a, Const) and isinstance(b, Const):
            try:
                return a.v == b.v
            except Exception:
                return None
        for x, y in ((a, b), (b, a)):
            if isinstance(x, Kind) and x.k == 'any':
                if x.attrs.get('truthy') is False and isinstance(y, Const) and y.v:
                    return False    # a falsy value never equals a truthy literal
                return None
            if isinstance(x, Kind) and isinstance(y, Const):
                ky = kind_of_const(y.v)
                num = {'int', 'bool', 'float'}
                if x.k != ky and not (x.k in num and ky in num):
                    # 'other' = a value of none of the builtin kinds: never equal to a literal
                    return False
                if 'neq' in x.attrs and any(type(n) is type(y.v) and n == y.v
                                            for n in x.attrs['neq']):
                    return False
                if x.k == 'str' and x.attrs.get('single') and isinstance(y.v, str):
                    fc = x.attrs.get('first')
                    if fc == 'b':
                        return y.v == 'b'
                    if len(y.v) == 1:
                        if fc == 'digit' and not y.v.isdigit():
                            return False
                        if fc == 'other' and (y.v == 'b' or y.v.isdigit()):
                            return False
                if x.attrs.get('empty') is True and x.k in ('str', 'bytes', 'list', 'dict'):
                    try:
                        return len(y.v) == 0
                    except Exception:
                        return None
                if x.attrs.get('empty') is False and x.k in ('str', 'bytes', 'list', 'dict'):
                    try:
                        if len(y.v) == 0:
                            return False
                    except Exception:
                        return None
                if x.k == 'int' and x.attrs.get('positive') and y.v == 0:
                    return False
        ka, kb = self._kind(a), self._kind(b)
        if ka == 'none' and kb == 'none':
            return True
        return None

    def _in(self, a, b):
        if isinstance(b, Const) and isinstance(a, Const):
            try:
                return a.v in b.v
            except Exception:
                return None
        return None

    def _order(self, op, a, b):
        if isinstance(a, Const) and isinstance(b, Const):
            try:
                if isinstance(op, ast.Gt):
                    return a.v > b.v
                if isinstance(op, ast.GtE):
                    return a.v >= b.v
                if isinstance(op, ast.Lt):
                    return a.v < b.v
                if isinstance(op, ast.LtE):
                    return a.v <= b.v
            except Exception:
                return None
        return None
