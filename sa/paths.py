"""Path enumeration over a function's CFG with copy/constant propagation of locals,
abstract pruning of branches, optional inlining of repository callees and explicit-raise
based exceptional control flow.  Produces guarded-effect paths (DESIGN.md 3.4)."""
import ast
import copy

from .model import exc_is_subclass, AnalysisError
from .cfg import build_cfg
from .expr import txt, subst, unawait, calls_in, atom, dotted
from .absval import AbsEval, Const, Kind


class Event:
    __slots__ = ('kind', 'expr', 'target', 'pol', 'node', 'func', 'depth', 'raw', 'cls',
                 'callee', 'ctx')

    def __init__(self, kind, expr=None, target=None, pol=None, node=None, func=None, depth=0,
                 raw=None, cls=None, callee=None, ctx=None):
        self.kind = kind        # guard | call | write | del | iter | handler | exc | raise | return
        self.expr = expr
        self.target = target
        self.pol = pol
        self.node = node
        self.func = func
        self.depth = depth
        self.raw = raw
        self.cls = cls          # exception class name for exc/raise/handler events
        self.callee = callee    # resolution of a call event (filled by the resolver hook)
        self.ctx = ctx

    @property
    def lineno(self):
        return self.node.lineno if self.node is not None else None

    def text(self):
        if self.kind == 'guard':
            a, p = atom(self.expr, self.pol)
            return ('' if p else 'not ') + '(' + a + ')'
        if self.kind == 'call':
            return 'call ' + txt(self.expr)
        if self.kind == 'write':
            return '%s = %s' % (txt(self.target), txt(self.expr))
        if self.kind == 'del':
            return 'del ' + txt(self.target)
        if self.kind == 'iter':
            return ('for-enter ' if self.pol else 'for-exit ') + txt(self.expr)
        if self.kind in ('exc', 'raise', 'handler'):
            return '%s %s' % (self.kind, self.cls)
        if self.kind == 'return':
            return 'return ' + txt(self.expr)
        if self.kind == 'opaque':
            return 'opaque %s' % type(self.node.ast).__name__
        if self.kind == 'bind':
            return '%s := %s' % (txt(self.target), txt(self.expr))
        return self.kind

    def __repr__(self):
        return '<%s L%s>' % (self.text(), self.lineno)


class LazyLines:
    """A list of text lines computed on first use (path descriptions are only needed when an
    obligation fails)."""
    __slots__ = ('_f', '_v')

    def __init__(self, f):
        self._f = f
        self._v = None

    def _get(self):
        if self._v is None:
            self._v = list(self._f())
        return self._v

    def __iter__(self):
        return iter(self._get())

    def __len__(self):
        return len(self._get())

    def __getitem__(self, i):
        return self._get()[i]

    def __bool__(self):
        return True

    def __add__(self, other):
        return LazyLines(lambda: list(self) + list(other))

    def __radd__(self, other):
        return LazyLines(lambda: list(other) + list(self))


class Path:
    __slots__ = ('events', 'outcome', 'value', 'cls', 'cut', 'lists')

    def __init__(self, events, outcome, value=None, cls=None, cut=None):
        self.lists = None           # param -> final list term (inlined callees mutating a list)
        self.events = events
        self.outcome = outcome      # 'return' | 'raise' | 'cut'
        self.value = value          # return value expr (substituted) or raised expr
        self.cls = cls              # raised class name
        self.cut = cut

    def guards(self):
        return [e for e in self.events if e.kind == 'guard']

    def guard_atoms(self):
        """set of (atom_text, polarity)"""
        return {atom(e.expr, e.pol) for e in self.events if e.kind == 'guard'}

    def calls(self):
        return [e for e in self.events if e.kind == 'call']

    def writes(self):
        return [e for e in self.events if e.kind == 'write']

    def describe(self, limit=40):
        return LazyLines(lambda: self._describe(limit))

    def _describe(self, limit=40):
        out = [e.text() + ('  @L%s' % e.lineno if e.lineno else '') for e in self.events[:limit]]
        out.append('=> %s %s' % (self.outcome, txt(self.value) if self.value is not None
                                 else (self.cls or self.cut or '')))
        return out


ELEM = '_elem'      # _elem(iterable): an element of the iterable (loop variable)
EXC = '_exc'        # the exception bound by ``except X as e``
ENTER = '_enter'    # _enter(ctx): value bound by ``with ctx as v``
OBJ = '_obj'        # the object under construction inside an inlined __init__
TYPED = '_typed'    # _typed('mod.Class', expr): expr of the caller, known to be an instance
FACTS = '$facts'    # env key: atom text -> truth value established by guards on this path
_PURE_BUILTINS = {'isinstance', 'len', 'type', 'callable', 'str', 'int', 'hasattr'}
_PURE_METHODS = {'rsplit', 'split', 'strip', 'lower', 'upper', 'startswith', 'endswith', 'format',
                 'rpartition', 'partition', 'lstrip', 'rstrip', 'decode', 'encode'}


def _dnf(cond, want):
    """Alternatives (lists of (atom expr, polarity)) under which cond has truth value want;
    ``and`` / ``or`` / ``not`` are expanded with short-circuit order, anything else is one
    atom.  A plain atom gives [[(cond, want)]]."""
    c = cond
    if isinstance(c, ast.UnaryOp) and isinstance(c.op, ast.Not):
        return _dnf(c.operand, not want)
    if isinstance(c, ast.BoolOp) and len(c.values) <= 4:
        conj = isinstance(c.op, ast.And)
        # conj & want / disj & not want: every operand has the value `want`
        if conj == want:
            alts = [[]]
            for v in c.values:
                alts = [a + b for a in alts for b in _dnf(v, want)]
            return alts
        # otherwise: the first i operands have `not decisive`, operand i is decisive
        out = []
        prefix = [[]]
        for v in c.values:
            for a in prefix:
                for b in _dnf(v, want):
                    out.append(a + b)
            prefix = [a + b for a in prefix for b in _dnf(v, not want)]
        return out
    return [[(cond, want)]]


def _stable(cond):
    """A guard whose value cannot change unless a local is rebound or an attribute is
    written: no awaits, no calls other than pure builtins."""
    for n in ast.walk(cond):
        if isinstance(n, ast.Await):
            return False
        if isinstance(n, ast.Call):
            if isinstance(n.func, ast.Name) and n.func.id in _PURE_BUILTINS:
                continue
            if isinstance(n.func, ast.Attribute) and n.func.attr in _PURE_METHODS:
                continue
            return False
    return True


class Enumerator:
    """Enumerate guarded-effect paths of a function.

    hooks (all optional):
      assume(expr) -> absval | None          facts of the abstract case
      const_expr(expr, fi) -> ast | None     repository constants
      resolve(call_expr, fi, ctx) -> object  call resolution result stored in event.callee;
                                             must have attributes ``funcs`` (list of
                                             (FuncInfo, ctx_cls)) and ``raises`` (set of class
                                             names the call may raise explicitly) when known
      inline(call_event, fi_callee, depth) -> bool
    """

    def __init__(self, model, assume=None, const_expr=None, resolve=None, inline=None,
                 loop_bound=1, max_paths=20000, max_depth=4, exc_parents=None,
                 follow_handlers=True, handler_filter=None, assume_inner=None,
                 refine_raises=True, opaque=None, stop=None):
        self.model = model
        self.assume = assume
        self.const_expr_hook = const_expr
        self.resolve = resolve
        self.inline = inline
        self.loop_bound = loop_bound
        self.max_paths = max_paths
        self.max_depth = max_depth
        self.exc_parents = exc_parents or {}
        self.follow_handlers = follow_handlers
        self.handler_filter = handler_filter
        self.assume_inner = assume_inner
        self.refine_raises = refine_raises
        self.trust_summaries = False
        self.keep = None            # keep(name, value, fi) -> bool: leave a local symbolic
        self.transparent = None     # transparent(callee FuncInfo) -> bool: inline silently
        self.fresh_lists = False    # bind ``x = []`` to a unique symbol so that appends are linked
        self.opaque = opaque        # opaque(stmt, fi) -> bool  (slicing of compound statements)
        self.stop = stop            # stop(node, fi) -> bool    (cut the path before this node)
        self.nonnull = None         # nonnull(call, fi, ctx) -> bool: the call returns an instance
        self._raise_cache = {}
        self._cfgs = {}
        self.n_paths = 0

    # ------------------------------------------------------------------
    def cfg(self, fi):
        if fi.qualname not in self._cfgs:
            op = (lambda st: self.opaque(st, fi)) if self.opaque else None
            self._cfgs[fi.qualname] = build_cfg(fi.node, self.exc_parents, op)
        return self._cfgs[fi.qualname]

    def _stored_names(self, fi):
        c = self.__dict__.setdefault('_stored', {})
        if fi.qualname not in c:
            names = set(fi.params())
            f = fi.parent
            while f is not None:
                names |= set(f.params())
                for n in ast.walk(f.node):
                    if isinstance(n, ast.Name) and isinstance(n.ctx, (ast.Store, ast.Del)):
                        names.add(n.id)
                f = f.parent
            for n in ast.walk(fi.node):
                if isinstance(n, ast.Name) and isinstance(n.ctx, (ast.Store, ast.Del)):
                    names.add(n.id)
                elif isinstance(n, ast.arg):
                    names.add(n.arg)
            c[fi.qualname] = names
        return c[fi.qualname]

    def refined_raises(self, res, cexpr, frame):
        """Exception classes the callee may raise explicitly *for these arguments*: the
        callee's paths are enumerated with the argument expressions bound, so that raise
        sites unreachable for literal arguments are pruned (DESIGN.md 3.2 refinement i)."""
        callee, cctx = res.funcs[0]
        if callee.qualname in frame.stack:
            # recursive call: whatever it raises is raised by the outer activation as well
            return set()
        if frame.depth >= self.max_depth:
            return res.raises
        args = bind_args(callee, cexpr, getattr(res, 'self_expr', None), cctx)
        if getattr(res, 'args_override', None) is not None:
            args = dict(res.args_override)
        if res.kind == 'class':
            args['self'] = ast.Name(OBJ, ast.Load())
        key = (callee.qualname, cctx.qualname if cctx else None,
               tuple(sorted((k, txt(v)) for k, v in args.items())))
        if key in self._raise_cache:
            return self._raise_cache[key]
        self._raise_cache[key] = res.raises     # recursion guard
        sub = Enumerator(self.model, assume=self.assume_inner, const_expr=self.const_expr_hook,
                         resolve=self.resolve, inline=None, loop_bound=1,
                         max_paths=min(self.max_paths, 600), max_depth=self.max_depth,
                         exc_parents=self.exc_parents, follow_handlers=self.follow_handlers,
                         assume_inner=self.assume_inner, refine_raises=True)
        sub._raise_cache = self._raise_cache
        sub._cfgs = self._cfgs
        sub.transparent = self.transparent
        try:
            paths = sub.run(callee, ctx=cctx, args=args, depth=frame.depth + 1,
                            stack=frame.stack, rdepth=frame.rdepth + 1)
        except AnalysisError:
            return res.raises
        out = set()
        for p in paths:
            if p.outcome == 'raise':
                out.add(p.cls or '?')
        # never larger than the summary
        if '?' not in res.raises:
            out = {c for c in out if c in res.raises or c == '?'} or (out & res.raises)
        self._raise_cache[key] = out
        return out

    def run(self, fi, ctx=None, args=None, depth=0, stack=(), rdepth=None):
        """Return list of Path for function fi.  args: dict param -> expr (already in the
        caller's terms); missing params stay symbolic names (defaults are NOT assumed unless
        given through args)."""
        cfg = self.cfg(fi)
        if depth == 0:
            self.n_paths = 0
        env = {}
        # module-level literals (hoisted constants) are the literal itself
        sc = self.model.stable_consts(fi.module)
        if sc:
            local = self._stored_names(fi)
            for k, v in sc.items():
                if k not in local:
                    env[k] = v
        if args:
            for k, v in args.items():
                env[k] = v
        out = []
        frame = _Frame(self, fi, ctx, cfg, depth, stack + (fi.qualname,), out,
                       rdepth if rdepth is not None else depth)
        frame.walk(cfg.entry, env, [], {}, None, None)
        return out


class _Frame:
    def __init__(self, en, fi, ctx, cfg, depth, stack, out, rdepth=0):
        self.en = en
        self.rdepth = rdepth
        self.fi = fi
        self.ctx = ctx
        self.cfg = cfg
        self.depth = depth
        self.stack = stack
        self.out = out
        hook = en.const_expr_hook
        assume = en.assume if depth == 0 else en.assume_inner
        self.ev = AbsEval(assume, (lambda e: hook(e, fi)) if hook else None)

    # -- helpers -----------------------------------------------------------
    def evaluator(self, env):
        ev = self._evaluator(env)
        nn = self.en.nonnull
        if nn is None:
            return ev
        base = ev.assume

        def assume(e):
            b = base(e) if base is not None else None
            if b is not None:
                return b
            d = e
            if isinstance(e, ast.Name):
                d = env.get('$def:' + e.id)
            if isinstance(d, ast.Await):
                d = d.value
            if isinstance(e, ast.Name) and isinstance(d, ast.Constant):
                return Const(d.value)       # a kept local that is bound to a literal
            if isinstance(e, ast.Name) and isinstance(d, (ast.List, ast.Tuple)) and not d.elts:
                return Const([] if isinstance(d, ast.List) else ())
            if isinstance(e, ast.Name) and isinstance(d, ast.Dict) and not d.keys:
                return Kind('dict', empty=True, truthy=False)
            if isinstance(d, ast.Call) and nn(d, self.fi, self.ctx):
                return Kind('other', truthy=True)
            return None
        return AbsEval(assume, ev.const_expr)

    def _evaluator(self, env):
        facts = env.get(FACTS)
        if not facts:
            return self.ev
        base = self.ev.assume

        def assume(e):
            if isinstance(e, (ast.Compare, ast.Call, ast.Name, ast.Attribute, ast.Subscript)):
                a, pl = atom(e, True)
                v = facts.get(a)
                if v is not None:
                    t = v if pl else (not v)
                    if isinstance(e, ast.Compare) or (
                            isinstance(e, ast.Call) and isinstance(e.func, ast.Name) and
                            e.func.id in ('isinstance', 'callable', 'hasattr')):
                        return Const(t)         # a boolean-valued expression: the fact is its value
                    b = base(e)
                    if b is not None:
                        return b
                    return Kind('any', truthy=t)    # only the truthiness is known
                if isinstance(e, (ast.Name, ast.Attribute, ast.Subscript)):
                    # a sized value whose length was compared with 0 has that truthiness
                    te = txt(e)
                    for form, sense in (('len(%s) == 0', False), ('len(%s) > 0', True),
                                        ('len(%s) >= 1', True)):
                        v = facts.get(form % te)
                        if v is not None and base(e) is None:
                            return Kind('any', truthy=(v == sense))
            return base(e)
        return AbsEval(assume, self.ev.const_expr)

    def emit(self, events, kind, **kw):
        e = Event(kind, func=self.fi, depth=self.depth, ctx=self.ctx, **kw)
        events.append(e)
        return e

    def finish(self, events, outcome, value=None, cls=None, cut=None, env=None):
        self.en.n_paths += 1
        if self.en.n_paths > self.en.max_paths:
            raise AnalysisError('path explosion in %s (> %d paths)' %
                                (self.stack[0], self.en.max_paths))
        p = Path(list(events), outcome, value, cls, cut)
        if env is not None and self.rdepth > 0:
            ls = {a: env[a] for a in self.fi.params() if self._list_shaped(env.get(a))}
            if ls:
                p.lists = ls
        self.out.append(p)

    def handler_catches(self, hnode, cls):
        from .cfg import _handler_names, CATCH_ALL
        names = _handler_names(hnode.ast)
        if names is None:
            return True
        if cls is None:
            return None
        for n in names:
            if exc_is_subclass(cls, n, self.en.exc_parents):
                return True
            if n == 'BaseException':
                return True
            if n == 'Exception' and cls not in ('KeyboardInterrupt', 'SystemExit',
                                                'GeneratorExit', 'CancelledError'):
                return True
        return False

    # -- statement evaluation with calls (and inlining) -----------------------
    def eval_calls(self, node, raw_exprs, env, events, k):
        """Process all calls inside raw_exprs (list of raw ast) in evaluation order, emitting
        call events; inlines where requested.  Calls continuation k(values, env, events,
        raised) once per combination of inlined callee paths, where values are the
        substituted versions of raw_exprs (with inlined calls replaced by their results) and
        raised is a list of exception class names that may be raised at this node."""
        calls = []
        n0 = len(events)
        for r in raw_exprs:
            if r is not None:
                calls.extend(calls_in(r))

        def step(i, repl, events_, raised, mut=None):
            if i == len(calls):
                vals = []
                for r in raw_exprs:
                    if r is None:
                        vals.append(None)
                    else:
                        rr = _replace_by_id(r, repl)
                        vals.append(subst(rr, env))
                env_k = self.killed(env, n0, events_, raw_exprs)
                if mut:
                    # lists of the caller that an inlined callee appended to
                    env_k = dict(env_k)
                    env_k.update(mut)
                k(vals, events_, raised, env_k)
                return
            c = calls[i]
            cexpr = subst(_replace_by_id(c, repl), env)
            ev = Event('call', expr=cexpr, node=node, func=self.fi, depth=self.depth, raw=c,
                       ctx=self.ctx)
            events2 = events_ + [ev]
            res = self.en.resolve(cexpr, self.fi, self.ctx, env) if self.en.resolve else None
            ev.callee = res
            raised2 = list(raised)
            # at a call boundary kept (symbolic) locals are replaced by their definitions
            defs = {k[5:]: v_ for k, v_ in env.items()
                    if isinstance(k, str) and k.startswith('$def:') and v_ is not None}
            cexpr_b = subst(cexpr, defs) if defs else cexpr
            if res is not None and defs and getattr(res, 'self_expr', None) is not None:
                res.self_expr = subst(res.self_expr, defs)
            if res is not None and getattr(res, 'raises', None):
                rs = res.raises
                if self.en.refine_raises and res.kind in ('repo', 'class') and \
                        len(res.funcs) == 1 and res.funcs[0][0] is not None:
                    rs = self.en.refined_raises(res, cexpr_b, self)
                for cl in sorted(rs):
                    if cl not in raised2:
                        raised2.append(cl)
            target = None
            silent = False
            if res is not None and self.en.inline is not None and getattr(res, 'funcs', None) \
                    and self.rdepth < self.en.max_depth + 2:
                cands = [(f, cx) for (f, cx) in res.funcs if f.qualname not in self.stack]
                if len(cands) == 1 and self.en.inline(ev, cands[0][0], self.depth):
                    target = cands[0]
            if target is None and res is not None and self.en.transparent is not None and \
                    res.kind == 'repo' and len(res.funcs) == 1 and \
                    res.funcs[0][0].qualname not in self.stack and self.rdepth < 8 and \
                    self.en.transparent(res.funcs[0][0]):
                se = getattr(res, 'self_expr', None)
                if se is None or (isinstance(se, ast.Name) and se.id == 'self') or \
                        res.funcs[0][0].cls is None or res.funcs[0][0].parent is not None:
                    target = res.funcs[0]
                    silent = True
            if target is None:
                step(i + 1, repl, events2, raised2, mut)
                return
            callee, cctx = target
            if silent:
                # a transparent helper keeps the caller's symbolic names (and their definitions)
                args = bind_args(callee, cexpr, getattr(res, 'self_expr', None), cctx)
                for k_, v_ in defs.items():
                    if k_ not in args:
                        args['$def:' + k_] = v_
            else:
                args = bind_args(callee, cexpr_b, getattr(res, 'self_expr', None), cctx)
            if getattr(res, 'args_override', None) is not None:
                args = dict(res.args_override)
            if res.kind == 'class':
                args['self'] = ast.Name(OBJ, ast.Load())
            sub = self.en.run(callee, ctx=cctx, args=args,
                              depth=self.depth if silent else self.depth + 1,
                              stack=self.stack, rdepth=self.rdepth + 1)
            # caller locals (lists under construction) passed by name: the callee's appends
            # are appends to the caller's list
            alias = {}
            try:
                for pn, a in bind_args(callee, c, None, cctx).items():
                    if isinstance(a, ast.Name) and self._list_shaped(env.get(a.id)):
                        alias[pn] = a.id
            except Exception:
                alias = {}
            # raises contributed by the inlined paths replace the summary
            raised_base = list(raised)
            for p in sub:
                ev_call = Event('call', expr=cexpr, node=node, func=self.fi, depth=self.depth,
                                raw=c, ctx=self.ctx)
                ev_call.callee = res
                evs = events_ + ([] if silent else [ev_call]) + p.events
                if p.outcome == 'return':
                    repl2 = dict(repl)
                    repl2[id(c)] = p.value if p.value is not None else ast.Constant(None)
                    mut2 = mut
                    if alias and p.lists:
                        for pn, name in alias.items():
                            nv = p.lists.get(pn)
                            if nv is not None and txt(nv) != txt((mut or {}).get(name,
                                                                                   env[name])):
                                mut2 = dict(mut2 or {})
                                mut2[name] = nv
                    step(i + 1, repl2, evs, raised_base, mut2)
                elif p.outcome == 'raise':
                    # exception propagates out of this node: remaining calls are skipped
                    k(None, evs, [('!', p.cls)])
                else:
                    k(None, evs, [('cut', p.cut)])
        step(0, {}, events, [])

    # -- main walk -------------------------------------------------------------
    def walk(self, node, env, events, visits, pending, hcls):
        """pending: pending return value (while running finally copies); hcls: class of the
        exception currently handled (for re-raise)."""
        kind = node.kind
        if kind == 'exit':
            self.finish(events, 'return', pending[1] if pending else ast.Constant(None),
                        env=env)
            return
        if kind == 'raise':
            self.finish(events, 'raise', cls=(pending[1] if pending and pending[0] == 'exc'
                                              else hcls))
            return
        # loop bound
        if kind in ('join', 'iter', 'test') and node.stmt is not None and \
                isinstance(node.stmt, (ast.While, ast.For, ast.AsyncFor)):
            key = node.id
            if (kind == 'iter' or self._is_loop_head(node)) and visits:
                inner = self.inner_loops(node.stmt)
                if inner and any(k in inner for k in visits):
                    visits = {k: c for k, c in visits.items() if k not in inner}
            n = visits.get(key, 0)
            if kind == 'join' and self._is_loop_head(node):
                if n > self.en.loop_bound:
                    # the bound is reached: the loop may still *end* here.  When its condition
                    # is a single atom the path goes on through the false edge only (like a
                    # ``for`` loop, whose 'done' edge is always followed); otherwise it is cut
                    exits = getattr(self.cfg, 'loop_exits', {}).get(node.id) or set()
                    tests = getattr(self.cfg, 'loop_tests', {}).get(node.id) or set()
                    if len(tests) != 1 or not exits:
                        self.finish(events, 'cut', cut='loop bound')
                        return
                    visits = dict(visits)
                    for (tid, lab_) in exits:
                        visits['$exit:%d' % tid] = lab_
                else:
                    visits = dict(visits)
                    visits[key] = n + 1
            elif kind == 'iter':
                visits = dict(visits)
                visits[key] = n + 1
        if self.en.stop is not None and kind not in ('entry', 'join') and \
                self.depth == 0 and self.en.stop(node, self.fi):
            self.finish(events, 'cut', cut='stop@L%s' % node.lineno)
            return
        if kind in ('entry', 'join'):
            self.follow_normal(node, env, events, visits, pending, hcls)
            return
        if kind == 'opaque':
            assigned = set()
            for n in ast.walk(node.ast):
                if isinstance(n, ast.Name) and isinstance(n.ctx, (ast.Store, ast.Del)):
                    assigned.add(n.id)
            env2 = {k: v for k, v in env.items() if '.' not in k and k not in assigned}
            for a in assigned:
                env2[a] = None
            ev2 = list(events)
            ev2.append(Event('opaque', node=node, func=self.fi, depth=self.depth, ctx=self.ctx))
            self.after(node, env2, ev2, visits, pending, hcls, [])
            return
        if kind == 'handler':
            h = node.ast
            env2 = env
            if h.name:
                env2 = dict(env)
                env2[h.name] = ast.Name(EXC, ast.Load())
            from .cfg import _handler_names
            names = _handler_names(h)
            if hcls is None and names and len(names) == 1:
                hcls = names[0]
            self.emit(events, 'handler', node=node, cls='|'.join(names) if names else '*')
            # the class being handled: keep the routed class if more specific
            self.follow_normal(node, env2, events, visits, None, hcls)
            return
        if kind == 'stmt':
            self.do_stmt(node, env, events, visits, pending, hcls)
            return
        if kind == 'with':
            item = node.ast

            def k(vals, events2, raised, env=env):
                if vals is None:
                    self.route_raised(node, env, events2, visits, raised, hcls)
                    return
                env2 = env
                if item.optional_vars is not None and isinstance(item.optional_vars, ast.Name):
                    env2 = dict(env)
                    env2[item.optional_vars.id] = ast.Call(ast.Name(ENTER, ast.Load()),
                                                           [vals[0]], [])
                self.after(node, env2, events2, visits, pending, hcls, raised)
            self.eval_calls(node, [item.context_expr], env, list(events), k)
            return
        if kind == 'test':
            def k(vals, events2, raised, env=env):
                if vals is None:
                    self.route_raised(node, env, events2, visits, raised, hcls)
                    return
                cond = vals[0]
                while isinstance(cond, ast.Call) and isinstance(cond.func, ast.Name) and \
                        cond.func.id == 'bool' and len(cond.args) == 1 and not cond.keywords:
                    cond = cond.args[0]     # as a condition, bool(x) is x
                lkey = None
                lsense = True
                if isinstance(node.ast, ast.Name) and env.get(node.ast.id) is not None:
                    lkey = '$local:' + node.ast.id
                else:
                    # ``len(x) == 0`` / ``len(x) > 0`` on a local decide its truth value too
                    sz = _len_test(node.ast)
                    if sz is not None and env.get(sz[0]) is not None:
                        lkey, lsense = '$local:' + sz[0], sz[1]
                self.exc_edges(node, env, events2, visits, raised, hcls)
                exit_lab = visits.get('$exit:%d' % node.id)
                for (succ, lab) in node.succ:
                    if lab not in ('T', 'F'):
                        continue
                    want = (lab == 'T')
                    if exit_lab is not None and lab != exit_lab:
                        continue        # loop bound reached: only the way out is followed
                    # a local that was tested before keeps the truth value it had then,
                    # whatever happened since to the state its defining expression reads
                    known = (env.get(FACTS) or {}).get(lkey) if lkey else None
                    if known is not None and not lsense:
                        known = not known
                    if known is not None and self.evaluator(env).truth(cond) is None:
                        if known != want:
                            continue
                        ev2 = list(events2)
                        e = Event('guard', expr=cond, pol=want, node=node, func=self.fi,
                                  depth=self.depth, raw=node.ast, ctx=self.ctx)
                        e.cls = 'decided'
                        ev2.append(e)
                        self.walk(succ, env, ev2, visits, pending, hcls)
                        continue
                    # the condition atoms were lowered by the CFG builder; a local that
                    # stands for a compound condition (``ok = a and b`` ... ``if ok:``)
                    # brings a compound back in: it is split here the same way
                    for alt in _dnf(cond, want):
                        env3 = env
                        ev2 = list(events2)
                        feasible = True
                        for (a_expr, a_pol) in alt:
                            t = self.evaluator(env3).truth(a_expr)
                            if t is not None and t != a_pol:
                                feasible = False
                                break
                            e = Event('guard', expr=a_expr, pol=a_pol, node=node, func=self.fi,
                                      depth=self.depth, raw=node.ast, ctx=self.ctx)
                            if t is not None:
                                e.cls = 'decided'
                            elif _stable(a_expr):
                                a, pl = atom(a_expr, a_pol)
                                facts = dict(env3.get(FACTS) or {})
                                facts[a] = pl
                                env3 = dict(env3)
                                env3[FACTS] = facts
                            ev2.append(e)
                        if not feasible:
                            continue
                        if lkey:
                            facts = dict(env3.get(FACTS) or {})
                            facts[lkey] = want if lsense else (not want)
                            env3 = dict(env3)
                            env3[FACTS] = facts
                        self.walk(succ, env3, ev2, visits, pending, hcls)
            self.eval_calls(node, [node.ast], env, list(events), k)
            return
        if kind == 'iter':
            st = node.ast
            n = visits.get(node.id, 0)   # already incremented

            def k(vals, events2, raised, env=env):
                if vals is None:
                    self.route_raised(node, env, events2, visits, raised, hcls)
                    return
                it = vals[0]
                self.exc_edges(node, env, events2, visits, raised, hcls)
                emp = self.evaluator(env).eval(it)
                known_empty = False
                from .absval import Const, Kind
                if isinstance(emp, Const):
                    try:
                        known_empty = len(emp.v) == 0
                    except Exception:
                        known_empty = False
                elif isinstance(emp, Kind) and emp.attrs.get('empty') is True:
                    known_empty = True
                for (succ, lab) in node.succ:
                    if lab == 'loop':
                        if n > self.en.loop_bound or known_empty:
                            continue
                        env2 = dict(env)
                        elem = ast.Call(ast.Name(ELEM, ast.Load()), [it, ast.Constant(n - 1)], [])
                        self.bind_target(st.target, elem, env2, None, node)
                        ev2 = list(events2)
                        ev2.append(Event('iter', expr=it, pol=True, node=node, func=self.fi,
                                         depth=self.depth, ctx=self.ctx))
                        self.walk(succ, env2, ev2, visits, pending, hcls)
                    elif lab == 'done':
                        ev2 = list(events2)
                        ev2.append(Event('iter', expr=it, pol=False, node=node, func=self.fi,
                                         depth=self.depth, ctx=self.ctx))
                        self.walk(succ, env, ev2, visits, pending, hcls)
            # the iterable is evaluated once; re-visits do not re-emit its calls
            if n <= 1:
                self.eval_calls(node, [st.iter], env, list(events), k)
            else:
                k([subst(st.iter, env)], list(events), [], env)
            return
        if kind == 'return':
            st = node.ast

            def k(vals, events2, raised, env=env):
                if vals is None:
                    self.route_raised(node, env, events2, visits, raised, hcls)
                    return
                v = vals[0] if vals[0] is not None else ast.Constant(None)
                self.exc_edges(node, env, events2, visits, raised, hcls)
                ev2 = list(events2)
                ev2.append(Event('return', expr=v, node=node, func=self.fi, depth=self.depth,
                                 ctx=self.ctx))
                for (succ, lab) in node.succ:
                    if lab == 'next':
                        self.walk(succ, env, ev2, visits, ('ret', v), hcls)
            self.eval_calls(node, [st.value], env, list(events), k)
            return
        if kind == 'raisestmt':
            st = node.ast

            def k(vals, events2, raised, env=env):
                if vals is None:
                    self.route_raised(node, env, events2, visits, raised, hcls)
                    return
                cls = self.raised_class(st, hcls)
                ev2 = list(events2)
                ev2.append(Event('raise', expr=vals[0], node=node, func=self.fi,
                                 depth=self.depth, cls=cls, ctx=self.ctx))
                self.route_class(node, env, ev2, visits, cls, hcls, label='raise',
                                 value=vals[0])
            self.eval_calls(node, [st.exc], env, list(events), k)
            return
        raise AnalysisError('unknown CFG node kind %s' % kind)

    def _is_loop_head(self, node):
        return node.origin == 'loophead'

    def inner_loops(self, stmt):
        """ids of the loop-header nodes of loops nested strictly inside stmt."""
        cache = self.cfg.__dict__.setdefault('_inner', {})
        if id(stmt) not in cache:
            inner_stmts = set()
            for ch in ast.walk(stmt):
                if ch is not stmt and isinstance(ch, (ast.While, ast.For, ast.AsyncFor)):
                    inner_stmts.add(id(ch))
            cache[id(stmt)] = {n.id for n in self.cfg.nodes
                               if n.stmt is not None and id(n.stmt) in inner_stmts and
                               (n.kind == 'iter' or n.origin == 'loophead')}
        return cache[id(stmt)]

    def follow_normal(self, node, env, events, visits, pending, hcls):
        for (succ, lab) in node.succ:
            if lab in ('exc', 'raise'):
                continue
            self.walk(succ, env, events, visits, pending, hcls)

    def after(self, node, env, events, visits, pending, hcls, raised):
        self.exc_edges(node, env, events, visits, raised, hcls)
        self.follow_normal(node, env, events, visits, pending, hcls)

    # -- exceptions --------------------------------------------------------------
    def exc_edges(self, node, env, events, visits, raised, hcls):
        """Follow exceptional successors of node: one per explicitly raised class, plus
        (follow_handlers) every handler reachable by an 'exc' edge with unknown class."""
        taken = set()
        for cls in raised:
            if isinstance(cls, tuple):
                continue
            ev2 = list(events)
            ev2.append(Event('exc', node=node, func=self.fi, depth=self.depth, cls=cls,
                             ctx=self.ctx))
            t = self.route_class(node, env, ev2, visits, cls, hcls, label='exc')
            if t is not None:
                taken.add(t)
        if self.en.follow_handlers and self.may_raise_implicit(node, events):
            for (succ, lab) in node.succ:
                if lab != 'exc' or succ.kind != 'handler' or succ.id in taken:
                    continue
                if self.en.handler_filter is not None and \
                        not self.en.handler_filter(node, succ, self.fi):
                    continue
                ev2 = list(events)
                ev2.append(Event('exc', node=node, func=self.fi, depth=self.depth, cls=None,
                                 ctx=self.ctx))
                self.walk(succ, env, ev2, visits, None, None)

    NO_RAISE_PRIMS = ('queue.task_done', 'queue.put', 'queue.put_nowait', 'logger.',
                      'builtin:isinstance', 'builtin:len', 'builtin:str', 'builtin:hasattr',
                      'builtin:callable', 'list.append', 'str.', 'extmod:sys.exc_info',
                      'extmod:time.time', 'set.')

    def may_raise_implicit(self, node, events):
        """Can an exception of unknown class plausibly originate at this node?  Only nodes
        with a call that is not on the cannot-raise list, or with a subscript / await."""
        a = node.ast
        if node.kind == 'with':
            a = a.context_expr
        elif node.kind == 'iter':
            a = a.iter
        if a is None:
            return False
        own = [e for e in reversed(events) if e.kind == 'call' and e.node is node
               and e.depth == self.depth]
        for n in ast.walk(a):
            if isinstance(n, (ast.FunctionDef, ast.AsyncFunctionDef, ast.Lambda)):
                continue
            if isinstance(n, ast.Subscript) and isinstance(n.ctx, ast.Load):
                return True
            if isinstance(n, ast.Call):
                ev = next((e for e in own if e.raw is n), None)
                r = ev.callee if ev is not None else None
                if r is not None and r.kind == 'prim':
                    pr = str(r.prim)
                    if any(pr == x or (x.endswith('.') and pr.startswith(x)) or
                           (pr.startswith('?.') and pr[2:] in ('append', 'task_done'))
                           for x in self.NO_RAISE_PRIMS):
                        continue
                if r is not None and r.kind in ('repo', 'class') and not r.raises and \
                        self.en.trust_summaries:
                    continue
                return True
        return False

    def route_raised(self, node, env, events, visits, raised, hcls):
        """An inlined callee raised (raised = [('!', cls)]) or was cut."""
        tag, cls = raised[0]
        if tag == 'cut':
            self.finish(events, 'cut', cut=cls)
            return
        ev2 = list(events)
        ev2.append(Event('exc', node=node, func=self.fi, depth=self.depth, cls=cls,
                         ctx=self.ctx))
        self.route_class(node, env, ev2, visits, cls, hcls, label='exc')

    def route_class(self, node, env, events, visits, cls, hcls, label='exc', value=None):
        """Continue at the first handler catching cls among node's exceptional successors
        (in inner-to-outer order), or at the finally copy / raise exit."""
        for (succ, lab) in node.succ:
            if lab != label:
                continue
            if succ.kind == 'handler':
                c = self.handler_catches(succ, cls)
                if c is True or (c is None and cls is None):
                    self.walk(succ, env, events, visits, None, cls)
                    return succ.id
                continue
            # finally copy (join) or raise exit
            self.walk(succ, env, events, visits, ('exc', cls), cls)
            return succ.id
        # no exceptional successor recorded (cannot happen for raise statements)
        self.finish(events, 'raise', cls=cls)
        return None

    def raised_class(self, st, hcls):
        e = st.exc
        if e is None:
            return hcls
        e = unawait(e)
        if isinstance(e, ast.Call):
            f = e.func
            if isinstance(f, ast.Attribute) and f.attr == 'with_traceback':
                return hcls
            e = f
        if isinstance(e, ast.Attribute):
            return e.attr
        if isinstance(e, ast.Name):
            if e.id == EXC:
                return hcls
            return e.id
        return None

    # -- attribute facts -------------------------------------------------------------
    @staticmethod
    def _impure(ev):
        r = ev.callee
        if isinstance(ev.raw, ast.Call) and False:
            return True
        c = unawait(ev.expr) if ev.expr is not None else None
        if isinstance(c, ast.Call) and isinstance(c.func, ast.Attribute) and \
                c.func.attr in _PURE_METHODS - {'encode', 'decode', 'format'} and \
                not isinstance(ev.raw, ast.Await):
            return False        # str methods: no effect on any object state
        if r is None:
            return True
        if r.kind in ('repo', 'unknown'):
            return True
        if r.kind == 'prim' and (r.prim in ('handler', 'ws.__call__') or
                                 str(r.prim).startswith('param:')):
            return True
        return False

    def killed(self, env, n0, events2, raw=None):
        """env without attribute facts if an impure call (or an await) happened among
        events2[n0:]."""
        if not any('.' in k for k in env) and not env.get(FACTS):
            return env
        hit = any(e.kind == 'call' and e.depth == self.depth and self._impure(e)
                  for e in events2[n0:]) or any(e.depth > self.depth for e in events2[n0:])
        if not hit and raw is not None:
            hit = any(isinstance(n, ast.Await) for r in raw if r is not None
                      for n in ast.walk(r))
        if not hit:
            return env
        out = {k: v for k, v in env.items() if '.' not in k}
        if out.get(FACTS):
            out[FACTS] = {a: v for a, v in out[FACTS].items() if '.' not in a}
        return out

    # -- statements -----------------------------------------------------------------
    def bind_target(self, target, value, env, events, node):
        if isinstance(target, ast.Name):
            if self.en.keep is not None and self.depth == 0 and self.rdepth == 0 and \
                    self.en.keep(target.id, value, self.fi):
                # the name stays symbolic; its definition is recorded for the rule to check
                env[target.id] = None
                env['$def:' + target.id] = value
                if env.get(FACTS) and ('$local:' + target.id) in env[FACTS]:
                    env[FACTS] = {a: v for a, v in env[FACTS].items()
                                  if a != '$local:' + target.id}
                if events is not None:
                    events.append(Event('bind', expr=value, target=target, node=node,
                                        func=self.fi, depth=self.depth, ctx=self.ctx))
                return
            if self.en.fresh_lists and isinstance(value, ast.List) and not value.elts:
                value = ast.Name('_list_L%s' % getattr(node, 'lineno', 0), ast.Load())
            env[target.id] = value
            if env.get(FACTS) and ('$local:' + target.id) in env[FACTS]:
                env[FACTS] = {a: v for a, v in env[FACTS].items()
                              if a != '$local:' + target.id}
        elif isinstance(target, (ast.Tuple, ast.List)):
            if isinstance(value, (ast.Tuple, ast.List)) and len(value.elts) == len(target.elts):
                for t, v in zip(target.elts, value.elts):
                    self.bind_target(t, v, env, events, node)
            else:
                for i, t in enumerate(target.elts):
                    self.bind_target(t, ast.Subscript(value, ast.Constant(i), ast.Load()),
                                     env, events, node)
        elif isinstance(target, ast.Starred):
            self.bind_target(target.value, value, env, events, node)
        elif isinstance(target, ast.Subscript) and isinstance(target.value, ast.Name) and \
                isinstance(env.get(target.value.id), ast.Dict) and \
                isinstance(target.slice, ast.Constant) and \
                all(isinstance(k_, ast.Constant) for k_ in env[target.value.id].keys):
            # ``d = {...}; d['k'] = v`` on a local dict display is the display with k: v
            # (a dict built in steps and a dict literal are one term)
            cur = env[target.value.id]
            keys, values = list(cur.keys), list(cur.values)
            for i_, k_ in enumerate(keys):
                if k_.value == target.slice.value:
                    values[i_] = value
                    break
            else:
                keys.append(target.slice)
                values.append(value)
            env[target.value.id] = ast.Dict(keys=keys, values=values)
        else:
            tgt = subst_target(target, env)
            if events is not None:
                events.append(Event('write', expr=value, target=tgt, node=node,
                                    func=self.fi, depth=self.depth, raw=target, ctx=self.ctx))
            d = dotted(tgt) if isinstance(tgt, ast.Attribute) else None
            if env.get(FACTS):
                key = d or (dotted(tgt.value) if isinstance(tgt, ast.Subscript) else None)
                if key:
                    env[FACTS] = {a: v for a, v in env[FACTS].items() if key not in a}
            if d is not None:
                env[d] = value
                # a write to a.b invalidates facts about a.b.c
                for k in [k for k in env if k.startswith(d + '.')]:
                    del env[k]
            elif isinstance(tgt, ast.Subscript):
                d2 = dotted(tgt.value)
                if d2 is not None:
                    for k in [k for k in env if k == d2 or k.startswith(d2 + '.')]:
                        if '.' in k:
                            del env[k]

    @staticmethod
    def _list_shaped(v):
        if isinstance(v, ast.List):
            return True
        return isinstance(v, ast.BinOp) and isinstance(v.op, ast.Add) and \
            _Frame._list_shaped(v.left) and _Frame._list_shaped(v.right)

    def _local_list_append(self, call, env):
        if isinstance(call, ast.Call) and isinstance(call.func, ast.Attribute) and \
                call.func.attr == 'append' and isinstance(call.func.value, ast.Name) and \
                len(call.args) == 1 and not call.keywords and \
                not isinstance(call.args[0], ast.Starred):
            name = call.func.value.id
            if self._list_shaped(env.get(name)):
                return name, call.args[0]
        return None

    def do_stmt(self, node, env, events, visits, pending, hcls):
        st = node.ast
        if isinstance(st, ast.Break):
            ev2 = list(events)
            ev2.append(Event('brk', node=node, func=self.fi, depth=self.depth, ctx=self.ctx))
            self.follow_normal(node, env, ev2, visits, pending, hcls)
            return
        if isinstance(st, (ast.Pass, ast.Import, ast.ImportFrom, ast.Global, ast.Nonlocal,
                           ast.Continue)):
            self.follow_normal(node, env, events, visits, pending, hcls)
            return
        if isinstance(st, (ast.FunctionDef, ast.AsyncFunctionDef, ast.ClassDef)):
            env2 = dict(env)
            env2.pop(st.name, None)
            self.follow_normal(node, env2, events, visits, pending, hcls)
            return
        if isinstance(st, ast.Expr):
            if isinstance(st.value, ast.Constant):
                self.follow_normal(node, env, events, visits, pending, hcls)
                return

            app = self._local_list_append(st.value, env)
            if app is not None:
                # ``x.append(a)`` on a local list whose construction is known is ``x += [a]``
                name, arg = app

                def k(vals, events2, raised, env=env):
                    if vals is None:
                        self.route_raised(node, env, events2, visits, raised, hcls)
                        return
                    env2 = dict(env)
                    env2[name] = _list_concat(env[name], ast.List(
                        [unawait(vals[0]).args[0]], ast.Load()))
                    self.exc_edges(node, env, events2, visits, raised, hcls)
                    self.follow_normal(node, env2, list(events2), visits, pending, hcls)
                self.eval_calls(node, [st.value], env, list(events), k)
                return

            def k(vals, events2, raised, env=env):
                if vals is None:
                    self.route_raised(node, env, events2, visits, raised, hcls)
                    return
                self.after(node, env, events2, visits, pending, hcls, raised)
            self.eval_calls(node, [st.value], env, list(events), k)
            return
        if isinstance(st, ast.Assign):
            tgt_subexprs = [t for t in st.targets]

            def k(vals, events2, raised, env=env):
                if vals is None:
                    self.route_raised(node, env, events2, visits, raised, hcls)
                    return
                env2 = dict(env)
                ev2 = list(events2)
                for t in st.targets:
                    self.bind_target(t, vals[0], env2, ev2, node)
                # exceptions happen before the binding takes effect
                self.exc_edges(node, env, events2, visits, raised, hcls)
                self.follow_normal(node, env2, ev2, visits, pending, hcls)
            self.eval_calls(node, [st.value], env, list(events), k)
            return
        if isinstance(st, ast.AnnAssign):
            if st.value is None:
                self.follow_normal(node, env, events, visits, pending, hcls)
                return

            def k(vals, events2, raised, env=env):
                if vals is None:
                    self.route_raised(node, env, events2, visits, raised, hcls)
                    return
                env2 = dict(env)
                ev2 = list(events2)
                self.bind_target(st.target, vals[0], env2, ev2, node)
                self.exc_edges(node, env, events2, visits, raised, hcls)
                self.follow_normal(node, env2, ev2, visits, pending, hcls)
            self.eval_calls(node, [st.value], env, list(events), k)
            return
        if isinstance(st, ast.AugAssign):
            def k(vals, events2, raised, env=env):
                if vals is None:
                    self.route_raised(node, env, events2, visits, raised, hcls)
                    return
                env2 = dict(env)
                ev2 = list(events2)
                if isinstance(st.target, ast.Name) and self.en.keep is not None and \
                        self.depth == 0 and self.rdepth == 0 and \
                        self.en.keep(st.target.id, vals[0], self.fi):
                    # a kept local: ``x += e`` is the (recorded) rebinding x := x + e
                    self.bind_target(st.target, ast.BinOp(ast.Name(st.target.id, ast.Load()),
                                                          st.op, vals[0]), env2, ev2, node)
                elif isinstance(st.target, ast.Name):
                    cur = env.get(st.target.id) or ast.Name(st.target.id, ast.Load())
                    lk = '$local:' + st.target.id
                    if env2.get(FACTS) and lk in env2[FACTS]:
                        env2[FACTS] = {a: v for a, v in env2[FACTS].items() if a != lk}
                    if isinstance(st.op, ast.Add) and isinstance(cur, ast.List) and \
                            isinstance(vals[0], ast.List):
                        env2[st.target.id] = _list_concat(cur, vals[0])
                    else:
                        env2[st.target.id] = ast.BinOp(cur, st.op, vals[0])
                else:
                    tgt = subst_target(st.target, env)
                    d = dotted(tgt) if isinstance(tgt, ast.Attribute) else None
                    cur = (env.get(d) if d else None) or tgt
                    value = ast.BinOp(cur, st.op, vals[0])
                    if isinstance(st.op, ast.Add) and isinstance(cur, ast.List) and \
                            isinstance(vals[0], ast.List):
                        value = _list_concat(cur, vals[0])
                    ev2.append(Event('write', expr=value,
                                     target=tgt, node=node, func=self.fi, depth=self.depth,
                                     raw=st.target, ctx=self.ctx))
                    if d is not None:
                        # ``self.x += e``: the attribute now has the new value
                        env2[d] = value
                        for k_ in [k_ for k_ in env2 if isinstance(k_, str) and
                                   k_.startswith(d + '.')]:
                            del env2[k_]
                        if env2.get(FACTS):
                            env2[FACTS] = {a: v_ for a, v_ in env2[FACTS].items() if d not in a}
                self.exc_edges(node, env, events2, visits, raised, hcls)
                self.follow_normal(node, env2, ev2, visits, pending, hcls)
            self.eval_calls(node, [st.value], env, list(events), k)
            return
        if isinstance(st, ast.Delete):
            ev2 = list(events)
            for t in st.targets:
                ev2.append(Event('del', target=subst(t, env), node=node, func=self.fi,
                                 depth=self.depth, raw=t, ctx=self.ctx))
            self.after(node, env, ev2, visits, pending, hcls, [])
            return
        if isinstance(st, ast.Assert):
            self.follow_normal(node, env, events, visits, pending, hcls)
            return
        raise AnalysisError('statement %s not supported in path enumeration' %
                            type(st).__name__)


def _len_test(e):
    """(name, sense) when e is ``len(name) == 0`` (sense False: the test holds iff name is
    falsy) or ``len(name) > 0`` / ``len(name) != 0`` / ``len(name) >= 1`` (sense True)."""
    if isinstance(e, ast.Compare) and len(e.ops) == 1 and isinstance(e.left, ast.Call) and \
            isinstance(e.left.func, ast.Name) and e.left.func.id == 'len' and \
            len(e.left.args) == 1 and isinstance(e.left.args[0], ast.Name) and \
            isinstance(e.comparators[0], ast.Constant):
        c = e.comparators[0].value
        op = e.ops[0]
        if c == 0 and isinstance(op, ast.Eq):
            return e.left.args[0].id, False
        if c == 0 and isinstance(op, (ast.NotEq, ast.Gt)):
            return e.left.args[0].id, True
        if c == 1 and isinstance(op, ast.GtE):
            return e.left.args[0].id, True
        if c == 1 and isinstance(op, ast.Lt):
            return e.left.args[0].id, False
    return None


def _list_concat(a, b):
    """a + b for list displays: one display when both are."""
    if isinstance(a, ast.List) and isinstance(b, ast.List) and not any(
            isinstance(x, ast.Starred) for x in a.elts + b.elts):
        return ast.List(list(a.elts) + list(b.elts), ast.Load())
    return ast.BinOp(a, ast.Add(), b)


def _replace_by_id(raw, repl):
    """raw with the nodes whose id is in repl replaced (functional, sharing)."""
    if not repl:
        return raw

    def rec(n):
        if id(n) in repl:
            return repl[id(n)]
        changed = None
        for f, v in ast.iter_fields(n):
            if isinstance(v, ast.AST):
                nv = rec(v)
                if nv is not v:
                    changed = changed or {}
                    changed[f] = nv
            elif isinstance(v, list):
                nl = None
                for i, x in enumerate(v):
                    if isinstance(x, ast.AST):
                        nx = rec(x)
                        if nx is not x:
                            if nl is None:
                                nl = list(v)
                            nl[i] = nx
                if nl is not None:
                    changed = changed or {}
                    changed[f] = nl
        if changed is None:
            return n
        new = copy.copy(n)
        for f, v in changed.items():
            setattr(new, f, v)
        return new
    return rec(raw)


def bind_args(callee, call, self_expr=None, ctx=None):
    """Map callee parameters to the (substituted) argument expressions of call.
    Parameters without an argument get their default expression.  *args/**kwargs in the
    call make the binding partial (unbound parameters stay symbolic)."""
    a = callee.node.args
    params = [x.arg for x in a.posonlyargs + a.args]
    out = {}
    pos = list(call.args)
    is_method = callee.cls is not None and callee.parent is None and params and \
        params[0] in ('self', 'cls')
    if is_method:
        if self_expr is not None and not (isinstance(self_expr, ast.Name) and
                                           self_expr.id == 'self'):
            # the receiver is written in the caller's terms: tag it with the callee's class so
            # that it is typed correctly inside the callee frame
            if ctx is not None and not (isinstance(self_expr, ast.Call) and
                                        isinstance(self_expr.func, ast.Name) and
                                        self_expr.func.id == TYPED):
                self_expr = ast.Call(ast.Name(TYPED, ast.Load()),
                                     [ast.Constant(ctx.qualname), self_expr], [])
            out[params[0]] = self_expr
        params = params[1:]
    if any(isinstance(x, ast.Starred) for x in pos):
        pos = []
        starred = True
    else:
        starred = False
    for p, v in zip(params, pos):
        out[p] = v
    kwstar = False
    for kw in call.keywords:
        if kw.arg is None:
            kwstar = True
            continue
        out[kw.arg] = kw.value
    if not starred and not kwstar:
        for p, d in callee.defaults().items():
            if p not in out:
                out[p] = d
    return out


def subst_target(target, env):
    """Substitute inside a store target without replacing the target itself by a fact."""
    if isinstance(target, ast.Attribute):
        return ast.Attribute(subst(target.value, env), target.attr, ast.Load())
    if isinstance(target, ast.Subscript):
        return ast.Subscript(subst(target.value, env), subst(target.slice, env), ast.Load())
    return subst(target, env)
