"""Receiver typing and call resolution for the engineio package (DESIGN.md 3.1).

Types are tuples:
  ('inst', ClassInfo)              instance of a repository class
  ('class', ClassInfo)             the class object
  ('module', ModuleInfo)           repository module
  ('func', FuncInfo, self_expr, ctx)  repository function / bound method
  ('ext', tag[, extra])            external object of a known role, e.g. queue, logger, ws
                                   (driver WebSocket object), wsclass, handlers, handler,
                                   asyncdict, extmod:<dotted>, builtin:<name>, sockets
                                   (sid -> socket table, extra = socket class), list:socket,
                                   list:packet, str, list, dict ...
Two modes: *path mode* (expressions already have locals substituted by paths.py) and
*flow-insensitive mode* (``with resolver.flow_insensitive():``) where a local name is typed
from its definitions when they all agree.
"""
import ast
import builtins
import contextlib

from .model import exc_is_subclass, AnalysisError, ClassInfo, FuncInfo
from .expr import txt, unawait, dotted
from .paths import ELEM, EXC, ENTER, TYPED

BUILTIN_EXC_PARENTS = {
    'Exception': 'BaseException', 'KeyboardInterrupt': 'BaseException',
    'SystemExit': 'BaseException', 'GeneratorExit': 'BaseException',
    'CancelledError': 'BaseException',
    'ValueError': 'Exception', 'KeyError': 'LookupError', 'IndexError': 'LookupError',
    'LookupError': 'Exception', 'TypeError': 'Exception', 'OSError': 'Exception',
    'IOError': 'OSError', 'ConnectionError': 'OSError', 'BrokenPipeError': 'ConnectionError',
    'ConnectionResetError': 'ConnectionError', 'TimeoutError': 'OSError',
    'RuntimeError': 'Exception', 'NotImplementedError': 'RuntimeError',
    'StopIteration': 'Exception', 'UnicodeDecodeError': 'ValueError',
    'UnicodeError': 'ValueError', 'JSONDecodeError': 'ValueError',
    'AttributeError': 'Exception', 'ImportError': 'Exception', 'RecursionError': 'RuntimeError',
    'Empty': 'Exception', 'QueueEmpty': 'Exception',
}


class Resolution:
    __slots__ = ('kind', 'funcs', 'prim', 'raises', 'self_expr', 'text', 'rtype',
                 'args_override')

    def __init__(self, kind, funcs=None, prim=None, raises=None, self_expr=None, text='',
                 rtype=None):
        self.kind = kind            # 'repo' | 'prim' | 'class' | 'unknown'
        self.funcs = funcs or []    # list of (FuncInfo, ctx ClassInfo|None)
        self.prim = prim
        self.raises = raises if raises is not None else set()
        self.self_expr = self_expr
        self.text = text
        self.rtype = rtype
        self.args_override = None

    def names(self):
        return [f.qualname for f, _ in self.funcs]

    def is_func(self, *quals):
        return any(f.qualname in quals for f, _ in self.funcs)

    def __repr__(self):
        if self.kind in ('repo', 'class'):
            return '<%s %s>' % (self.kind, ','.join(self.names()) or self.text)
        return '<%s %s>' % (self.kind, self.prim or self.text)


# attribute name -> role, for instances of repository classes
_ATTR_ROLES = {
    'queue': ('ext', 'queue'),
    'logger': ('ext', 'logger'),
    'handlers': ('ext', 'handlers'),
    '_async': ('ext', 'asyncdict'),
    'ws': ('ext', 'clientws'),
    'http': ('ext', 'http'),
    'service_task_event': ('ext', 'event'),
    'service_task_handle': ('ext', 'task'),
    'read_loop_task': ('ext', 'task'),
    'write_loop_task': ('ext', 'task'),
    'log_message_keys': ('ext', 'set'),
    'session': ('ext', 'dict'),
}


def _tkey(t):
    if t is None:
        return None
    return tuple(x.qualname if isinstance(x, (ClassInfo, FuncInfo)) else
                 (x.name if hasattr(x, 'tree') else (txt(x) if isinstance(x, ast.AST) else x))
                 for x in t)


class Resolver:
    def __init__(self, model):
        self.m = model
        self.exc_parents = dict(BUILTIN_EXC_PARENTS)
        # repository exception classes, from every module, with all their bases
        changed = True
        while changed:
            changed = False
            for mi in model.modules.values():
                for c in mi.classes.values():
                    if c.name in self.exc_parents:
                        continue
                    bases = [b.name for b in c.bases] + \
                        [b.split('.')[-1] for b in c.external_bases]
                    if bases and any(b in self.exc_parents or b == 'BaseException'
                                     for b in bases):
                        self.exc_parents[c.name] = tuple(bases) if len(bases) > 1 else bases[0]
                        changed = True
        self.stats = {'repo': 0, 'prim': 0, 'class': 0, 'unknown': 0}
        self.unknown = {}
        self._fi = False
        self._ld_cache = {}
        self._param_types = {}
        self._raises_cache = {}
        self._raises_stack = set()
        self._quiet = 0
        self._cur_env = None
        self._pair_server_socket()
        self.driver_ws = self._driver_ws_classes()
        self._infer_param_types()

    @contextlib.contextmanager
    def flow_insensitive(self):
        old = self._fi
        self._fi = True
        try:
            yield self
        finally:
            self._fi = old

    @contextlib.contextmanager
    def quiet(self):
        self._quiet += 1
        try:
            yield self
        finally:
            self._quiet -= 1

    # ------------------------------------------------------------------
    def _pair_server_socket(self):
        """socket class constructed by each server class' _handle_connect."""
        self.server_of = {}     # socket class qualname -> server ClassInfo
        self.socket_of = {}     # server class qualname -> socket ClassInfo
        base_socket = None
        for mi in self.m.modules.values():
            for ci in mi.classes.values():
                if ci.name == 'BaseSocket':
                    base_socket = ci
        for mi in self.m.modules.values():
            for ci in mi.classes.values():
                hc = ci.methods.get('_handle_connect')
                if hc is None:
                    continue
                for n in ast.walk(hc.node):
                    if isinstance(n, ast.Call):
                        d = dotted(n.func)
                        r = self.m.resolve_symbol(mi, d) if d else None
                        if r and r[0] == 'class' and base_socket in self.m.mro(r[1]):
                            self.socket_of[ci.qualname] = r[1]
                            self.server_of[r[1].qualname] = ci

    def _driver_ws_classes(self):
        """Every class stored under the 'websocket' key of a driver registry (_async dict),
        including conditional alternative definitions."""
        out = []
        for name, mi in sorted(self.m.modules.items()):
            if not name.startswith('async_drivers'):
                continue
            reg = mi.consts.get('_async')
            if not isinstance(reg, ast.Dict):
                continue
            for k, v in zip(reg.keys, reg.values):
                if isinstance(k, ast.Constant) and k.value == 'websocket':
                    for n in ast.walk(v):
                        if isinstance(n, ast.Name):
                            for ci in self._classes_named(mi, n.id):
                                if all(ci.node is not o.node for o in out):
                                    out.append(ci)
        return out

    def _classes_named(self, mi, name):
        out = []
        for n in ast.walk(mi.tree):
            if isinstance(n, ast.ClassDef) and n.name == name:
                ci = mi.classes.get(name)
                if ci is not None and ci.node is n:
                    out.append(ci)
                else:
                    c2 = ClassInfo(name, n, mi)
                    for st in n.body:
                        if isinstance(st, (ast.FunctionDef, ast.AsyncFunctionDef)):
                            c2.methods[st.name] = FuncInfo(st.name, st, mi, cls=c2)
                    self.m._resolve_bases(c2)
                    out.append(c2)
        if not out:
            r = self.m.resolve_symbol(mi, name)
            if r and r[0] == 'class':
                out.append(r[1])
        return out

    # ------------------------------------------------------------------
    def _infer_param_types(self):
        """Types of parameters from the arguments of resolved call sites (two rounds)."""
        for _ in range(2):
            acc = {}
            with self.flow_insensitive(), self.quiet():
                for fi in self.m.all_funcs():
                    for n in ast.walk(fi.node):
                        if not isinstance(n, ast.Call):
                            continue
                        try:
                            r = self.resolve(n, fi, None)
                        except AnalysisError:
                            continue
                        if r.kind not in ('repo', 'class') or len(r.funcs) != 1:
                            # driver websocket class: handler argument's ws parameter
                            if r.kind == 'prim' and r.prim == 'wsclass' and n.args:
                                ht = self.type_of(n.args[0], fi, None)
                                if ht and ht[0] == 'func':
                                    ps = [p for p in ht[1].params() if p != 'self']
                                    if ps:
                                        acc.setdefault((ht[1].qualname, ps[0]), []).append(
                                            ('ext', 'ws'))
                            continue
                        callee = r.funcs[0][0]
                        if callee is None:
                            continue
                        params = callee.params()
                        if callee.cls is not None and callee.parent is None and params and \
                                params[0] in ('self', 'cls'):
                            params = params[1:]
                        pairs = list(zip(params, n.args)) + \
                            [(k.arg, k.value) for k in n.keywords if k.arg]
                        for p, a in pairs:
                            if isinstance(a, ast.Starred):
                                continue
                            t = self.type_of(a, fi, None)
                            acc.setdefault((callee.qualname, p), []).append(t)
            new = {}
            for key, ts in acc.items():
                ts2 = [t for t in ts if t is not None and not (
                    t[0] == 'ext' and str(t[1]).startswith('param:'))]
                if ts2 and all(_tkey(t) == _tkey(ts2[0]) for t in ts2):
                    new[key] = ts2[0]
            self._param_types = new
            self._ld_cache = {}

    def param_type(self, f, name, ctx=None):
        return self._param_types.get((f.qualname, name))

    def local_defs(self, fn):
        """name -> list of defining expressions (flow-insensitive)."""
        key = fn.qualname
        if key in self._ld_cache:
            return self._ld_cache[key]
        out = {}

        def rec(node):
            for st in ast.iter_child_nodes(node):
                if isinstance(st, (ast.FunctionDef, ast.AsyncFunctionDef, ast.ClassDef,
                                   ast.Lambda)):
                    continue
                if isinstance(st, ast.Assign):
                    for t in st.targets:
                        if isinstance(t, ast.Name):
                            out.setdefault(t.id, []).append(st.value)
                elif isinstance(st, (ast.For, ast.AsyncFor)) and isinstance(st.target, ast.Name):
                    out.setdefault(st.target.id, []).append(
                        ast.Call(ast.Name(ELEM, ast.Load()), [st.iter], []))
                elif isinstance(st, ast.AugAssign) and isinstance(st.target, ast.Name):
                    out.setdefault(st.target.id, []).append(st.target)
                elif isinstance(st, ast.comprehension) and isinstance(st.target, ast.Name):
                    out.setdefault(st.target.id, []).append(
                        ast.Call(ast.Name(ELEM, ast.Load()), [st.iter], []))
                rec(st)
        rec(fn.node)
        self._ld_cache[key] = out
        return out

    # ------------------------------------------------------------------
    def owner_class(self, fi, ctx):
        if ctx is not None:
            return ctx
        return fi.cls

    def is_a(self, ci, base_name):
        return any(k.name == base_name for k in self.m.mro(ci))

    # ------------------------------------------------------------------
    def type_of(self, e, fi, ctx=None, depth=0):
        e = unawait(e)
        if depth > 15 or e is None:
            return None
        mi = fi.module
        if isinstance(e, ast.Constant):
            if isinstance(e.value, str):
                return ('ext', 'str')
            return None
        if isinstance(e, (ast.List, ast.ListComp)):
            return ('ext', 'list')
        if isinstance(e, ast.Dict):
            return ('ext', 'dict')
        if isinstance(e, ast.JoinedStr):
            return ('ext', 'str')
        if isinstance(e, ast.Name):
            if e.id in ('self', '_obj') and self.owner_class(fi, ctx) is not None:
                # _obj: the object under construction inside an inlined __init__
                return ('inst', self.owner_class(fi, ctx))
            if self._cur_env is not None and depth < 8:
                d = self._cur_env.get('$def:' + e.id)
                if d is not None:
                    return self.type_of(d, fi, ctx, depth + 2)
            if self._fi and depth < 8:
                f = fi
                while f is not None:
                    cands = self.local_defs(f).get(e.id)
                    if cands:
                        ts = []
                        for c in cands:
                            if any(isinstance(n, ast.Name) and n.id == e.id
                                   for n in ast.walk(c)):
                                ts.append(None)
                            else:
                                ts.append(self.type_of(c, f, ctx, depth + 4))
                        if ts and ts[0] is not None and \
                                all(_tkey(t) == _tkey(ts[0]) for t in ts):
                            return ts[0]
                        return None
                    if e.id in f.params():
                        break
                    f = f.parent
            f = fi
            while f is not None:
                if e.id in f.nested:
                    return ('func', f.nested[e.id], None, None)
                if e.id in f.nested_classes:
                    return ('class', f.nested_classes[e.id])
                va = f.node.args.vararg.arg if f.node.args.vararg else None
                ka = f.node.args.kwarg.arg if f.node.args.kwarg else None
                if e.id in f.params() or e.id in (va, ka):
                    return self.param_type(f, e.id, ctx) or ('ext', 'param:' + e.id)
                f = f.parent
            if e.id in mi.classes:
                return ('class', mi.classes[e.id])
            if e.id in mi.functions:
                return ('func', mi.functions[e.id], None, None)
            if e.id in mi.imports:
                m2 = self.m.resolve_module_alias(mi, e.id)
                if m2 is not None:
                    return ('module', m2)
                r = self.m.resolve_symbol(mi, e.id)
                if r:
                    if r[0] == 'class':
                        return ('class', r[1])
                    if r[0] == 'func':
                        return ('func', r[1], None, None)
                ext = self.m.external_name(mi, e.id)
                if ext:
                    return ('ext', 'extmod:' + ext)
            if e.id in mi.consts:
                return ('ext', 'global:' + e.id)
            if e.id in (ELEM, EXC, ENTER):
                return ('ext', 'builtin:' + e.id)
            if hasattr(builtins, e.id):
                return ('ext', 'builtin:' + e.id)
            return None
        if isinstance(e, ast.Attribute):
            bt = self.type_of(e.value, fi, ctx, depth + 1)
            if bt is None:
                return None
            return self._attr_type(bt, e.attr, e.value, fi, ctx, depth)
        if isinstance(e, ast.Call):
            f = unawait(e.func)
            if isinstance(f, ast.Name) and f.id == ELEM and e.args:
                return self._elem_type(self.type_of(e.args[0], fi, ctx, depth + 1))
            if isinstance(f, ast.Name) and f.id == TYPED and len(e.args) == 2 and \
                    isinstance(e.args[0], ast.Constant):
                try:
                    return ('inst', self.m.cls(e.args[0].value))
                except AnalysisError:
                    return None
            if isinstance(f, ast.Name) and f.id == 'super' and not e.args:
                oc = self.owner_class(fi, ctx)
                if oc is not None:
                    return ('super', oc, fi.cls or oc)
                return None
            if isinstance(f, ast.Name) and f.id in (ENTER, 'getattr'):
                return None
            ft = self.type_of(f, fi, ctx, depth + 1)
            if ft is None:
                return None
            if ft[0] == 'class':
                return ('inst', ft[1])
            if ft[0] == 'func':
                return self._return_type(ft[1], ft[2], fi, ctx, depth)
            if ft[0] == 'ext':
                tag = ft[1]
                extra = ft[2] if len(ft) > 2 else None
                if tag == 'wsclass':
                    return ('ext', 'ws')
                if tag == 'sockets.copy':
                    return ('ext', 'sockets', extra)
                if tag in ('sockets.values', 'sockets.copy.values'):
                    return ('ext', 'list:socket', extra) if extra else None
                if tag in ('sockets.get', 'sockets.pop'):
                    return ('inst', extra) if extra else None
                if tag in ('extmod:asyncio.Queue', 'extmod:queue.Queue', 'async:queue'):
                    return ('ext', 'queue')
                if tag == 'extmod:asyncio.wait_for' and e.args:
                    return self.type_of(e.args[0], fi, ctx, depth + 1)
                if tag in ('extmod:asyncio.ensure_future', 'extmod:asyncio.create_task',
                           'async:thread', 'extmod:threading.Thread'):
                    return ('ext', 'task')
                if tag in ('async:event', 'extmod:asyncio.Event', 'extmod:threading.Event'):
                    return ('ext', 'event')
                if tag.startswith('str.') and tag.split('.', 1)[1] in \
                        ('lower', 'upper', 'strip', 'format', 'replace', 'decode', 'lstrip',
                         'rstrip', 'join'):
                    return ('ext', 'str')
                if tag in ('str.split', 'str.rsplit'):
                    return ('ext', 'list:str')
                if tag.endswith('.get') and len(e.args) >= 2 and \
                        isinstance(e.args[1], ast.Constant) and isinstance(e.args[1].value, str):
                    return ('ext', 'str')
                if tag == 'builtin:str':
                    return ('ext', 'str')
            return None
        if isinstance(e, ast.Subscript):
            bt = self.type_of(e.value, fi, ctx, depth + 1)
            if bt is None:
                return None
            if bt[0] == 'ext':
                tag = bt[1]
                extra = bt[2] if len(bt) > 2 else None
                if tag == 'sockets':
                    return ('inst', extra) if extra else None
                if tag == 'asyncdict':
                    if isinstance(e.slice, ast.Constant):
                        k = e.slice.value
                        if k == 'websocket':
                            return ('ext', 'wsclass')
                        return ('ext', 'async:' + str(k))
                    return None
                if tag == 'handlers':
                    return ('ext', 'handler')
                if tag.startswith('list:') and not isinstance(e.slice, ast.Slice):
                    return self._elem_type(bt)
                if tag.startswith('list:') and isinstance(e.slice, ast.Slice):
                    return bt
                if tag == 'str':
                    return ('ext', 'str')
            return None
        if isinstance(e, ast.BinOp) and isinstance(e.op, ast.Add):
            a = self.type_of(e.left, fi, ctx, depth + 1)
            if a and a[0] == 'ext' and a[1] in ('str', 'list'):
                return a
            b = self.type_of(e.right, fi, ctx, depth + 1)
            if b and b[0] == 'ext' and b[1] in ('str', 'list'):
                return b
            return None
        if isinstance(e, ast.IfExp):
            a = self.type_of(e.body, fi, ctx, depth + 1)
            b = self.type_of(e.orelse, fi, ctx, depth + 1)
            if a is not None and _tkey(a) == _tkey(b):
                return a
            return None
        return None

    def _elem_type(self, ct):
        if ct is None:
            return None
        if ct[0] == 'ext' and ct[1].startswith('list:'):
            if len(ct) > 2 and ct[2] is not None:
                return ('inst', ct[2])
            if ct[1] == 'list:str':
                return ('ext', 'str')
        return None

    def _attr_type(self, bt, attr, base_expr, fi, ctx, depth):
        if bt[0] == 'module':
            m2 = bt[1]
            if attr in m2.classes:
                return ('class', m2.classes[attr])
            if attr in m2.functions:
                return ('func', m2.functions[attr], None, None)
            sub = self.m.modules.get((m2.name + '.' if m2.name else '') + attr)
            if sub is not None:
                return ('module', sub)
            if attr in m2.imports:
                r = self.m.resolve_symbol(m2, attr)
                if r and r[0] == 'class':
                    return ('class', r[1])
                if r and r[0] == 'func':
                    return ('func', r[1], None, None)
                if r and r[0] == 'module':
                    return ('module', r[1])
                ext = self.m.external_name(m2, attr)
                if ext:
                    return ('ext', 'extmod:' + ext)
            if attr in m2.consts:
                return ('ext', 'global:%s.%s' % (m2.name, attr))
            for st in m2.tree.body:
                if isinstance(st, ast.ImportFrom) and any(a.name == '*' for a in st.names):
                    return ('ext', 'extmod:%s.%s' % (st.module, attr))
            return None
        if bt[0] == 'super':
            mro = self.m.mro(bt[1])
            owner = bt[2]
            start = mro.index(owner) + 1 if owner in mro else 1
            for k in mro[start:]:
                if attr in k.methods:
                    return ('func', k.methods[attr], ast.Name('self', ast.Load()), bt[1])
            return None
        if bt[0] in ('inst', 'class'):
            ci = bt[1]
            if bt[0] == 'inst':
                if attr == 'server' and self.is_a(ci, 'BaseSocket'):
                    for k in self.m.mro(ci):
                        if k.qualname in self.server_of:
                            return ('inst', self.server_of[k.qualname])
                    return None
                if attr == 'sockets':
                    for k in self.m.mro(ci):
                        if k.qualname in self.socket_of:
                            return ('ext', 'sockets', self.socket_of[k.qualname])
                    return ('ext', 'sockets', None)
                if attr == 'packets' and ci.name == 'Payload':
                    pk = self.m.modules.get('packet')
                    if pk and 'Packet' in pk.classes:
                        return ('ext', 'list:packet', pk.classes['Packet'])
                m = self.m.find_method(ci, attr)
                if m is None:
                    init = self.m.find_method(ci, '__init__')
                    if init is not None:
                        for n in ast.walk(init.node):
                            if isinstance(n, ast.Assign) and len(n.targets) == 1 and \
                                    isinstance(n.targets[0], ast.Attribute) and \
                                    n.targets[0].attr == attr and \
                                    isinstance(n.targets[0].value, ast.Name) and \
                                    n.targets[0].value.id == 'self' and \
                                    isinstance(n.value, ast.Name) and depth < 10:
                                pt = self.param_type(init, n.value.id)
                                if pt is not None and pt[0] == 'inst':
                                    return pt
                if m is None and attr in _ATTR_ROLES:
                    return _ATTR_ROLES[attr]
            m = self.m.find_method(ci, attr)
            if m is not None:
                return ('func', m, base_expr if bt[0] == 'inst' else None, ci)
            v, owner = self.m.class_attr(ci, attr)
            if v is not None:
                d = dotted(v)
                if d:
                    r = self.m.resolve_symbol(owner.module, d)
                    if r and r[0] == 'module':
                        return ('module', r[1])
                    if r and r[0] == 'class':
                        return ('class', r[1])
                return ('ext', 'classattr:' + attr)
            for k in self.m.mro(ci):
                if attr in k.nested_classes:
                    return ('class', k.nested_classes[attr])
            return ('ext', 'attr:' + attr) if bt[0] == 'inst' else None
        if bt[0] == 'ext':
            tag = bt[1]
            extra = bt[2] if len(bt) > 2 else None
            if tag == 'sockets' or tag == 'sockets.copy':
                return ('ext', tag + '.' + attr, extra)
            return ('ext', tag + '.' + attr)
        return None

    def _return_type(self, f, self_expr, fi, ctx, depth):
        n = f.name
        if n == '_get_socket':
            t = self.type_of(self_expr, fi, ctx, depth + 1) if self_expr is not None else None
            ci = t[1] if t and t[0] == 'inst' else self.owner_class(fi, ctx)
            if ci is not None:
                for k in self.m.mro(ci):
                    if k.qualname in self.socket_of:
                        return ('inst', self.socket_of[k.qualname])
            return None
        if n == 'create_queue':
            return ('ext', 'queue')
        if n == 'create_event':
            return ('ext', 'event')
        if n == 'start_background_task':
            return ('ext', 'task')
        if n == 'get_queue_empty_exception':
            return ('ext', 'queue_empty')
        if n in ('_ok', '_bad_request', '_unauthorized', '_method_not_found'):
            return ('ext', 'dict')
        if n == 'encode' and f.cls is not None and f.cls.name == 'Payload':
            return ('ext', 'str')
        return None

    # ------------------------------------------------------------------
    # ------------------------------------------------------------------
    def _table_stores_instances(self):
        """Field invariant of the session tables: every ``<x>.sockets[k] = v`` in the
        repository stores a local bound only to constructor calls of repository classes that
        define neither __bool__ nor __len__ (so a value read from a table is never None and
        always truthy); tables are otherwise only created empty."""
        if '_tsi' in self.__dict__:
            return self._tsi
        ok = True
        n = 0
        for f in self.m.all_funcs():
            for st in ast.walk(f.node):
                tgts = []
                if isinstance(st, ast.Assign):
                    tgts = [(t, st.value) for t in st.targets]
                elif isinstance(st, ast.AugAssign):
                    tgts = [(st.target, None)]
                for t, v in tgts:
                    if isinstance(t, ast.Subscript) and isinstance(t.value, ast.Attribute) \
                            and t.value.attr == 'sockets':
                        n += 1
                        if not (isinstance(v, ast.Name) and self._ctor_bound(f, v.id)):
                            ok = False
                    if isinstance(t, ast.Attribute) and t.attr == 'sockets':
                        if not (isinstance(v, ast.Dict) and not v.keys):
                            ok = False
                if isinstance(st, ast.Call) and isinstance(st.func, ast.Attribute) and \
                        st.func.attr in ('update', 'setdefault', '__setitem__') and \
                        isinstance(st.func.value, ast.Attribute) and \
                        st.func.value.attr == 'sockets':
                    ok = False
        self._tsi = ok and n > 0
        return self._tsi

    def _ctor_bound(self, f, name):
        found = False
        for st in ast.walk(f.node):
            if isinstance(st, ast.Name) and st.id == name and isinstance(st.ctx, ast.Store):
                found = True
        if not found:
            return False
        for st in ast.walk(f.node):
            if isinstance(st, ast.Assign) and any(
                    isinstance(t, ast.Name) and t.id == name for t in st.targets):
                v = unawait(st.value)
                if not isinstance(v, ast.Call):
                    return False
                d = dotted(v.func)
                r = self.m.resolve_symbol(f.module, d) if d else None
                if not r or r[0] != 'class':
                    return False
                for k in self.m.mro(r[1]):
                    if '__bool__' in k.methods or '__len__' in k.methods:
                        return False
            elif isinstance(st, (ast.For, ast.AsyncFor, ast.With, ast.AsyncWith,
                                 ast.AugAssign, ast.NamedExpr)):
                tg = getattr(st, 'target', None)
                if tg is not None and any(isinstance(m, ast.Name) and m.id == name
                                          for m in ast.walk(tg)):
                    return False
        return True

    def returns_instance(self, call, fi, ctx=None):
        """Is ``call`` a call of a repository function that, whenever it returns, returns an
        object read from a session table (``<self>.sockets[...]``) - hence, by the table
        invariant, an instance: not None, truthy."""
        call = unawait(call)
        if not isinstance(call, ast.Call):
            return False
        key = (txt(call.func), fi.qualname, ctx.qualname if ctx else None)
        cache = self.__dict__.setdefault('_ri', {})
        if key in cache:
            return cache[key]
        cache[key] = False
        try:
            with self.quiet():
                res = self.resolve(call, fi, ctx)
        except Exception:
            return False
        if res is None or res.kind != 'repo' or not res.funcs:
            return False
        for f, _c in res.funcs:
            rets = [n for n in ast.walk(f.node) if isinstance(n, ast.Return)]
            if not rets:
                return False
            for r in rets:
                v = unawait(r.value) if r.value is not None else None
                if isinstance(v, ast.Name):
                    defs = [st.value for st in ast.walk(f.node) if isinstance(st, ast.Assign)
                            and any(isinstance(t, ast.Name) and t.id == v.id
                                    for t in st.targets)]
                    if not defs or not all(self._is_table_read(d) for d in defs):
                        return False
                elif not self._is_table_read(v):
                    return False
        out = self._table_stores_instances()
        cache[key] = out
        return out

    @staticmethod
    def _is_table_read(v):
        v = unawait(v) if v is not None else None
        return isinstance(v, ast.Subscript) and isinstance(v.value, ast.Attribute) and \
            v.value.attr == 'sockets'

    def const_expr(self, e, fi):
        """AST of a repository constant denoted by Name/Attribute e inside fi, else None.
        Only module/class level literals and tuples/lists of literals or names."""
        e = unawait(e)
        d = dotted(e)
        if not d or d.split('.')[0] == 'self':
            return None
        f = fi
        head = d.split('.')[0]
        while f is not None:
            if head in f.params():
                return None
            f = f.parent
        r = self.m.resolve_symbol(fi.module, d)
        if r and r[0] == 'const':
            v = r[1]
            if isinstance(v, ast.Constant):
                return v
            if isinstance(v, (ast.Tuple, ast.List)) and all(
                    isinstance(x, (ast.Constant, ast.Name)) for x in v.elts):
                return v
        return None

    # ------------------------------------------------------------------
    def resolve(self, call, fi, ctx=None, env=None):
        old_env = self._cur_env
        self._cur_env = env
        try:
            return self._resolve(call, fi, ctx)
        finally:
            self._cur_env = old_env

    def _resolve(self, call, fi, ctx=None):
        call = unawait(call)
        f = unawait(call.func)
        if isinstance(f, ast.Name) and self._fi and f.id not in fi.params():
            # a local alias of a callable (``h = getattr(self, '_upgrade_' + t); h(...)``)
            defs = self.local_defs(fi).get(f.id) or []
            if len(defs) == 1 and isinstance(unawait(defs[0]), (ast.Call, ast.Attribute)):
                d = unawait(defs[0])
                if isinstance(d, ast.Attribute) or (
                        isinstance(d.func, ast.Name) and d.func.id == 'getattr'):
                    call = ast.Call(d, call.args, call.keywords)
                    f = d
        text = txt(f)
        if isinstance(f, ast.Call) and isinstance(f.func, ast.Name) and f.func.id == 'getattr' \
                and len(f.args) >= 2:
            bt = self.type_of(f.args[0], fi, ctx)
            name = f.args[1]
            prefix = None
            if isinstance(name, ast.BinOp) and isinstance(name.op, ast.Add) and \
                    isinstance(name.left, ast.Constant) and isinstance(name.left.value, str):
                prefix = name.left.value
            if isinstance(name, ast.Constant) and isinstance(name.value, str) and bt \
                    and bt[0] == 'inst':
                m = self.m.find_method(bt[1], name.value)
                if m:
                    return self._repo([(m, bt[1])], f.args[0], text)
            if prefix and bt and bt[0] == 'inst':
                fs = []
                seen = set()
                for k in self.m.mro(bt[1]):
                    for mn, m in k.methods.items():
                        if mn.startswith(prefix) and mn not in seen:
                            seen.add(mn)
                            fs.append((m, bt[1]))
                if fs:
                    return self._repo(fs, f.args[0], text)
            return self._unknown(text)
        t = self.type_of(f, fi, ctx)
        if t is None:
            if isinstance(f, ast.Attribute):
                # method call on an untyped receiver: classified by method name only
                return self._prim('?.' + f.attr, text)
            return self._unknown(text)
        if t[0] == 'func':
            fn = t[1]
            self_expr = t[2]
            cctx = t[3]
            if cctx is None and fn.cls is not None and self_expr is not None:
                st = self.type_of(self_expr, fi, ctx)
                cctx = st[1] if st and st[0] == 'inst' else fn.cls
            if cctx is None and fn.cls is not None and fn.parent is not None:
                cctx = self.owner_class(fi, ctx)
            return self._repo([(fn, cctx)], self_expr, text)
        if t[0] == 'class':
            ci = t[1]
            init = self.m.find_method(ci, '__init__')
            r = Resolution('class', funcs=[(init, ci)] if init else [], text=text,
                           rtype=('inst', ci))
            if init:
                r.raises = self.raises_of(init, ci)
            if not self._quiet:
                self.stats['class'] += 1
            return r
        if t[0] == 'ext':
            tag = t[1]
            r = self._prim(tag, text)
            if tag == 'ws':
                r.prim = 'ws.__call__'
            if tag in ('ws.wait', 'ws.send', 'ws.close'):
                owner = ctx or fi.cls
                aio = None
                if owner is not None:
                    aio = owner.module.name.startswith('async_')
                r.raises = self.driver_raises(tag.split('.')[1], aio)
            return r
        return self._unknown(text)

    def _prim(self, tag, text):
        if not self._quiet:
            self.stats['prim'] += 1
        return Resolution('prim', prim=tag, text=text)

    def _repo(self, funcs, self_expr, text):
        if not self._quiet:
            self.stats['repo'] += 1
        r = Resolution('repo', funcs=funcs, self_expr=self_expr, text=text)
        rs = set()
        for fn, cx in funcs:
            rs |= self.raises_of(fn, cx)
        r.raises = rs
        return r

    def _unknown(self, text):
        if not self._quiet:
            self.stats['unknown'] += 1
            self.unknown[text] = self.unknown.get(text, 0) + 1
        return Resolution('unknown', text=text)

    # ------------------------------------------------------------------
    def driver_raises(self, meth, asyncio=None):
        """Exception classes explicitly raised by some driver's WebSocket.<meth>; asyncio =
        True / False restricts to the drivers of that flavour (registry key 'asyncio')."""
        out = set()
        for ci in self.driver_ws:
            if asyncio is not None and self._driver_is_asyncio(ci.module) != asyncio:
                continue
            for k in self.m.mro(ci):
                m = k.methods.get(meth)
                if m is not None:
                    out |= self.raises_of(m, ci)
                    break
        return out

    def _driver_is_asyncio(self, mi):
        reg = mi.consts.get('_async')
        if isinstance(reg, ast.Dict):
            for k, v in zip(reg.keys, reg.values):
                if isinstance(k, ast.Constant) and k.value == 'asyncio':
                    return isinstance(v, ast.Constant) and v.value is True
        # helper modules (e.g. _websocket_wsgi) belong to the threaded drivers
        return False

    def raises_of(self, fn, ctx=None):
        """Explicit-raise summary: class names raised by ``raise`` statements in fn or in its
        resolved repository callees and not caught on the way (class-name based)."""
        key = (fn.qualname, ctx.qualname if ctx else None)
        if key in self._raises_cache:
            return self._raises_cache[key]
        if key in self._raises_stack:
            return set()
        self._raises_stack.add(key)
        out = set()
        with self.flow_insensitive(), self.quiet():
            self._collect_raises(fn.node.body, fn, ctx, [], out, None)
        self._raises_stack.discard(key)
        if not self._raises_stack:
            self._raises_cache[key] = out
        return out

    def caught_by(self, cls, names):
        """Does an except clause with class names `names` (None = bare) catch class cls?"""
        if names is None:
            return True
        for n in names:
            if exc_is_subclass(cls, n, self.exc_parents):
                return True
            if n == 'BaseException' or (n == 'Exception' and cls not in (
                    'KeyboardInterrupt', 'SystemExit', 'GeneratorExit', 'CancelledError')):
                return True
        return False

    def _caught(self, cls, handlers_stack):
        for names_list in reversed(handlers_stack):
            for names in names_list:
                if self.caught_by(cls, names):
                    return True
        return False

    def _collect_raises(self, body, fn, ctx, hstack, out, hcls):
        from .cfg import _handler_names
        for st in body:
            if isinstance(st, (ast.FunctionDef, ast.AsyncFunctionDef, ast.ClassDef)):
                continue
            if isinstance(st, ast.Try):
                names_list = [_handler_names(h) for h in st.handlers]
                self._collect_raises(st.body, fn, ctx, hstack + [names_list], out, hcls)
                self._collect_raises(st.orelse, fn, ctx, hstack, out, hcls)
                for h in st.handlers:
                    hn = _handler_names(h)
                    self._collect_raises(h.body, fn, ctx, hstack, out,
                                         hn[0] if hn and len(hn) == 1 else None)
                self._collect_raises(st.finalbody, fn, ctx, hstack, out, hcls)
                continue
            if isinstance(st, ast.Raise):
                cls = None
                e = st.exc
                if e is None:
                    cls = hcls
                else:
                    e2 = e.func if isinstance(e, ast.Call) else e
                    if isinstance(e, ast.Call) and isinstance(e.func, ast.Attribute) and \
                            e.func.attr == 'with_traceback':
                        cls = hcls
                    elif isinstance(e2, ast.Attribute):
                        cls = e2.attr
                    elif isinstance(e2, ast.Name):
                        cls = e2.id
                if cls is None:
                    cls = '?'
                if not self._caught(cls, hstack):
                    out.add(cls)
            for sub in self._stmt_exprs(st):
                for n in ast.walk(sub):
                    if isinstance(n, ast.Call):
                        r = self.resolve(n, fn, ctx)
                        if r.kind in ('repo', 'class', 'prim'):
                            for cl in r.raises:
                                if not self._caught(cl, hstack):
                                    out.add(cl)
            for blk in self._sub_blocks(st):
                self._collect_raises(blk, fn, ctx, hstack, out, hcls)

    @staticmethod
    def _stmt_exprs(st):
        if isinstance(st, (ast.If, ast.While)):
            return [st.test]
        if isinstance(st, (ast.For, ast.AsyncFor)):
            return [st.iter]
        if isinstance(st, (ast.With, ast.AsyncWith)):
            return [i.context_expr for i in st.items]
        if isinstance(st, ast.Try):
            return []
        return [st]

    @staticmethod
    def _sub_blocks(st):
        if isinstance(st, (ast.If, ast.While, ast.For, ast.AsyncFor)):
            return [st.body, st.orelse]
        if isinstance(st, (ast.With, ast.AsyncWith)):
            return [st.body]
        return []
