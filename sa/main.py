"""./check <ID> [--tier quick|thorough] [--explain file]  (see DESIGN.md section 4)"""
import argparse
import importlib
import json
import os
import sys

HERE = os.path.dirname(os.path.abspath(__file__))
VERIF = os.path.dirname(HERE)
sys.path.insert(0, VERIF)
sys.setrecursionlimit(20000)


def main():
    ap = argparse.ArgumentParser()
    ap.add_argument('prop')
    ap.add_argument('--tier', default=os.environ.get('VERIF_TIER') or 'quick',
                    choices=['quick', 'thorough'])
    ap.add_argument('--explain', default=None)
    ap.add_argument('--repo', default=os.environ.get('ENGINEIO_REPO') or '/repo')
    ap.add_argument('--no-selftest', action='store_true')
    args = ap.parse_args()
    try:
        seed = int(os.environ.get('VERIF_SEED') or 0)
    except ValueError:
        seed = 0
    from sa.report import run_property
    try:
        mod = importlib.import_module('props.' + args.prop)
    except ImportError as e:
        print('ANALYSIS-ERROR property=%s no check module: %s' % (args.prop, e))
        return 2
    if args.explain:
        try:
            info = json.load(open(args.explain))
        except Exception as e:
            print('ANALYSIS-ERROR cannot read %s: %s' % (args.explain, e))
            return 2
        print('replaying obligation [%s] %s (key %s) on the current tree' %
              (info.get('rule'), info.get('obligation'), info.get('key')))
        code, A = run_property(args.prop, mod, args.tier, seed, args.repo, quiet=True,
                               write_evidence=False)
        if A is None:
            print('ANALYSIS-ERROR property=%s' % args.prop)
            return 2
        hit = [o for o in A.obligations if o.rule == info.get('rule') and
               o.key == info.get('key') and o.status == 'violated']
        for o in hit:
            print(json.dumps(o.as_dict(), indent=1, default=str))
            print('VIOLATION property=%s replay=%s' % (args.prop, args.explain))
        if not hit:
            print('the obligation is discharged on the current tree')
        return 1 if hit else 0
    code, A = run_property(args.prop, mod, args.tier, seed, args.repo)
    if code == 0 and args.tier == 'thorough' and not args.no_selftest:
        from selftest.runner import run_catalogue
        code = run_catalogue(args.prop, mod, args.repo, seed)
        if code == 0:
            from selftest.corpus import run_corpora
            files = set()
            for q in A.counters['functions']:
                try:
                    rp = A.model.func(q).module.relpath
                except Exception:
                    continue
                files.add(rp.split('src/engineio/', 1)[-1])
            code = run_corpora(args.prop, files, args.repo, seed)
    return code


if __name__ == '__main__':
    try:
        rc = main()
    except SystemExit:
        raise
    except Exception as e:
        import traceback
        traceback.print_exc()
        print('ANALYSIS-ERROR %s: %s' % (type(e).__name__, e))
        rc = 2
    sys.stdout.flush()
    os._exit(rc)
