"""Static-analysis engine for python-engineio (see /verif/DESIGN.md section 3).

Nothing in this package imports or executes code from /repo: the sources are
parsed with the standard-library ``ast`` module only.
"""
