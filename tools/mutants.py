#!/venv/bin/python
"""Syntactic mutation sweep (a measuring instrument for the rules, not a registered check).

  mutants.py gen  <out.json> [--per-file N] [--seed S]   enumerate mutants of the core modules
  mutants.py run  <mutants.json> <results.json>           run the 20 quick checks on each (in memory)
  mutants.py test <mutants.json> <results.json> <out.json>  pinned tests for the unflagged ones

A mutant is (file, line, operator, old source of the statement, new source of the module).
"""
import ast
import copy
import json
import os
import random
import subprocess
import sys
import tempfile
from concurrent.futures import ProcessPoolExecutor

VERIF = os.path.dirname(os.path.dirname(os.path.abspath(__file__)))
sys.path.insert(0, VERIF)
REPO = os.environ.get('ENGINEIO_REPO', '/repo')
FILES = ['socket.py', 'async_socket.py', 'server.py', 'async_server.py', 'base_server.py',
         'base_socket.py', 'packet.py', 'payload.py', 'json.py', 'client.py', 'async_client.py',
         'base_client.py', 'middleware.py', 'static_files.py', 'async_drivers/asgi.py']
if os.environ.get('MUT_DRIVERS'):
    FILES = FILES + ['async_drivers/aiohttp.py', 'async_drivers/tornado.py',
                     'async_drivers/sanic.py', 'async_drivers/gevent_uwsgi.py',
                     'async_drivers/_websocket_wsgi.py', 'async_drivers/eventlet.py',
                     'async_drivers/gevent.py', 'async_drivers/threading.py']
PROPS = ['C%02d' % i for i in range(1, 21)]
CMP = {ast.Lt: ast.LtE, ast.LtE: ast.Lt, ast.Gt: ast.GtE, ast.GtE: ast.Gt, ast.Eq: ast.NotEq,
       ast.NotEq: ast.Eq, ast.Is: ast.IsNot, ast.IsNot: ast.Is, ast.In: ast.NotIn,
       ast.NotIn: ast.In}


def _is_log(st):
    s = ast.unparse(st)
    return 'logger.' in s or '_log_error_once' in s


def enumerate_mutants(rel):
    src = open(os.path.join(REPO, 'src/engineio', rel)).read()
    tree = ast.parse(src)
    sites = []      # (kind, node path id)
    idx = {}
    for i, n in enumerate(ast.walk(tree)):
        idx[id(n)] = i
    nodes = list(ast.walk(tree))
    out = []

    def emit(op, node, mutate):
        t2 = copy.deepcopy(tree)
        n2 = list(ast.walk(t2))[idx[id(node)]]
        try:
            mutate(n2, t2)
            ast.fix_missing_locations(t2)
            new = ast.unparse(t2)
            compile(new, rel, 'exec')
        except Exception:
            return
        out.append({'file': rel, 'line': getattr(node, 'lineno', 0), 'op': op,
                    'old': ast.unparse(node)[:160], 'new_src': new})
    parents = {}
    for n in nodes:
        for ch in ast.iter_child_nodes(n):
            parents[id(ch)] = n
    for n in nodes:
        if isinstance(n, (ast.If, ast.While)) and not (
                isinstance(n.test, ast.Constant)) and not _is_log(n.test):
            emit('COND-NEG', n, lambda m, t: setattr(m, 'test', ast.UnaryOp(ast.Not(), m.test)))
        if isinstance(n, ast.Compare) and len(n.ops) == 1 and type(n.ops[0]) in CMP:
            emit('CMP-SWAP', n, lambda m, t: setattr(m, 'ops', [CMP[type(m.ops[0])]()]))
        if isinstance(n, ast.BoolOp):
            emit('BOOL-OP', n, lambda m, t: setattr(
                m, 'op', ast.Or() if isinstance(m.op, ast.And) else ast.And()))
        if isinstance(n, (ast.Expr, ast.Assign, ast.AugAssign)) and not _is_log(n) and not (
                isinstance(n, ast.Expr) and isinstance(n.value, ast.Constant)):
            par = parents.get(id(n))
            if isinstance(par, (ast.FunctionDef, ast.AsyncFunctionDef, ast.If, ast.While,
                                ast.For, ast.Try, ast.With, ast.AsyncWith, ast.ExceptHandler,
                                ast.AsyncFor)):
                def dele(m, t):
                    m.__class__ = ast.Pass
                    for f in list(m._fields):
                        pass
                    m._fields = ()
                emit('STMT-DEL', n, dele)
        if isinstance(n, ast.Constant) and type(n.value) is int and not isinstance(
                parents.get(id(n)), (ast.Subscript, ast.Slice)):
            emit('CONST+1', n, lambda m, t: setattr(m, 'value', m.value + 1))
        if isinstance(n, ast.Constant) and type(n.value) is bool:
            emit('BOOL-FLIP', n, lambda m, t: setattr(m, 'value', not m.value))
        if isinstance(n, ast.Return) and n.value is not None and not isinstance(
                n.value, ast.Constant):
            emit('RET-NONE', n, lambda m, t: setattr(m, 'value', ast.Constant(None)))
    return out


def cmd_gen(args):
    out_path = args[0]
    per_file = int(args[args.index('--per-file') + 1]) if '--per-file' in args else 30
    seed = int(args[args.index('--seed') + 1]) if '--seed' in args else 1
    rnd = random.Random(seed)
    allm = []
    for rel in FILES:
        ms = enumerate_mutants(rel)
        # drop mutants whose unparse equals the original module
        base = ast.unparse(ast.parse(open(os.path.join(REPO, 'src/engineio', rel)).read()))
        ms = [m for m in ms if m['new_src'] != base]
        if '--exclude' in args:
            seen = {(x['file'], x['line'], x['op'], x['old']) for x in
                    json.load(open(args[args.index('--exclude') + 1]))}
            ms = [m for m in ms if (m['file'], m['line'], m['op'], m['old']) not in seen]
        rnd.shuffle(ms)
        # stratify by operator
        byop = {}
        for m in ms:
            byop.setdefault(m['op'], []).append(m)
        pick = []
        while len(pick) < per_file and any(byop.values()):
            for op in sorted(byop):
                if byop[op] and len(pick) < per_file:
                    pick.append(byop[op].pop())
        print(rel, len(ms), 'mutants,', len(pick), 'picked')
        allm += pick
    for i, m in enumerate(allm):
        m['id'] = 'M%04d' % i
    json.dump(allm, open(out_path, 'w'))
    print(len(allm), 'mutants written')


def _run_one(m):
    import importlib
    from sa.report import run_property, load_known
    res = {}
    for prop in PROPS:
        mod = importlib.import_module('props.' + prop)
        try:
            code, A = run_property(prop, mod, 'quick', 1, REPO, overrides={m['file']: m['new_src']},
                                   quiet=True, write_evidence=False)
        except Exception as e:
            res[prop] = 'crash: %s' % e
            continue
        if A is None:
            res[prop] = 'exit2'
            continue
        known, _ = load_known(prop)
        viol = sorted({o.rule for o in A.obligations if o.status == 'violated' and
                       not any(k.get('rule') == o.rule and k.get('key') == o.key for k in known)})
        if viol:
            res[prop] = viol
    return m['id'], res


def cmd_run(args):
    ms = json.load(open(args[0]))
    done = {}
    if os.path.exists(args[1]):
        done = json.load(open(args[1]))
    todo = [m for m in ms if m['id'] not in done]
    with ProcessPoolExecutor(max_workers=15) as ex:
        for k, (mid, res) in enumerate(ex.map(_run_one, todo, chunksize=1)):
            done[mid] = res
            if k % 20 == 0:
                json.dump(done, open(args[1], 'w'))
                print(k, '/', len(todo), flush=True)
    json.dump(done, open(args[1], 'w'))


def _test_one(m):
    w = tempfile.mkdtemp(prefix='mt.', dir='/tmp')
    try:
        subprocess.run(['cp', '-r', REPO + '/src', REPO + '/tests', REPO + '/pyproject.toml',
                        REPO + '/tox.ini', w], stderr=subprocess.DEVNULL)
        open(os.path.join(w, 'src/engineio', m['file']), 'w').write(m['new_src'])
        try:
            r = subprocess.run(['/tmp/mut/check_baseline.py', w], capture_output=True, text=True,
                               timeout=600)
            line = r.stdout.splitlines()[0] if r.stdout else 'no output'
        except subprocess.TimeoutExpired:
            line = 'timeout'
        return m['id'], line
    finally:
        subprocess.run(['rm', '-rf', w])


def cmd_test(args):
    ms = {m['id']: m for m in json.load(open(args[0]))}
    res = json.load(open(args[1]))
    which = args[3] if len(args) > 3 else 'unflagged'
    if which == 'unflagged':
        todo = [ms[i] for i, r in res.items() if not r]
    elif which == 'flagged':
        todo = [ms[i] for i, r in res.items() if r and any(isinstance(v, list) for v in r.values())]
    else:
        todo = list(ms.values())
    out = {}
    if os.path.exists(args[2]):
        out = json.load(open(args[2]))
    todo = [m for m in todo if m['id'] not in out]
    with ProcessPoolExecutor(max_workers=12) as ex:
        for k, (mid, line) in enumerate(ex.map(_test_one, todo, chunksize=1)):
            out[mid] = line
            if k % 20 == 0:
                json.dump(out, open(args[2], 'w'))
                print(k, '/', len(todo), flush=True)
    json.dump(out, open(args[2], 'w'))


if __name__ == '__main__':
    {'gen': cmd_gen, 'run': cmd_run, 'test': cmd_test}[sys.argv[1]](sys.argv[2:])
