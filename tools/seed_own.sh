#!/bin/sh
# usage: seed_own.sh <seed dir>  -- run the check of the seed's own property on a patched scratch copy
D="$1"; P=$(basename "$D" | cut -c1-3)
W=$(mktemp -d /tmp/so.XXXXXX)
mkdir -p "$W/src" && cp -r /repo/src/engineio "$W/src/engineio"
(cd "$W" && patch -p1 -s < "$D/patch.diff" >/dev/null 2>&1) || { echo "$(basename $D) PATCH-FAILED"; rm -rf "$W"; exit 0; }
o=$(ENGINEIO_REPO="$W" /verif/check $P --tier quick 2>&1); rc=$?
rules=$(echo "$o" | grep "violated:" | sed 's/.*violated: \[\([^]]*\)\].*/\1/' | sort -u | tr '\n' ',')
echo "$(basename $D) rc=$rc $rules $(echo "$o" | grep ANALYSIS-ERROR | cut -c1-150)"
rm -rf "$W"
