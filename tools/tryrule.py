#!/venv/bin/python
"""usage: tryrule.py <seed dir> <module.func> <rule-prefix> [flavour]  -- run one rule function on a patched tree (in memory)"""
import sys, importlib
sys.path.insert(0, '/verif')
from sa.report import Analysis
from selftest.corpus import overrides_for
from collections import Counter
d, fn, rule = sys.argv[1:4]
ov = overrides_for(d + '/patch.diff', '/repo') if d != '-' else None
A = Analysis('/repo', rule[:3], 'quick', 1, ov)
mod, name = fn.rsplit('.', 1)
f = getattr(importlib.import_module('props.' + mod), name)
from props.sockrules import FLAVOURS
from props.clirules import CFLAVOURS
args = []
if len(sys.argv) > 4 and len(sys.argv[4]) == 2 and sys.argv[4][0] in "sc":
    fl = sys.argv[4]
    args = [FLAVOURS[int(fl[1])] if fl[0] == 's' else CFLAVOURS[int(fl[1])]]
try:
    f(A, *args, rule)
except TypeError:
    f(A, rule, *args)
print(Counter((o.status, o.rule) for o in A.obligations))
seen = set()
for o in A.obligations:
    if o.status == 'violated' and (o.rule, o.key) not in seen:
        seen.add((o.rule, o.key))
        print('VIOLATED', o.rule, o.key, o.what[:100])
        for l in (o.detail or [])[:int(sys.argv[-1]) if sys.argv[-1].isdigit() else 6]:
            print('     ', l)
