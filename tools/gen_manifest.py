#!/venv/bin/python
"""Regenerate /verif/MANIFEST.json from props/meta.py (run after adding/removing a check)."""
import json, os, sys
VERIF = os.path.dirname(os.path.dirname(os.path.abspath(__file__)))
sys.path.insert(0, VERIF)
from props.meta import _EX, _ND

TECH = {
    'C01': 'abstract interpretation of the codec over a finite kind lattice + provenance-term comparison with the wire table + fixpoint over abstract cache states; payload-splitter and WebSocket frame-kind path rules',
    'C02': 'provenance terms of encode; integer linear-form guard rule (MUST-PRECEDE) and all-or-nothing write rule on decode paths; packet decode table; event-sequence path rule on the ASGI body assembly loop',
    'C03': 'WHO-MAY (queue consumers, poll callers) over resolved calls + path rules on poll/writer/handle_get_request + EXIT-STATE of the upgrade region + abstract cases (text/bytes, empty or not) over every driver send()',
    'C04': 'dispatch TABLE over wire types 0..9 by abstract case enumeration + path rules on handle_post_request and the WebSocket loop',
    'C05': 'ONCE typestate rule on close() (guard, set-before-event, monotone flags) + containment rule on handler calls + NO-EFFECT-AFTER(close) on receive loops + constant table of the reason texts + unawaited-coroutine-call rule (asyncio) + handler-coverage rule on the ASGI close()',
    'C06': 'ordered guarded-effect path rule (handshake) + EXIT-STATE over the inlined upgrade region with explicit-raise exceptional edges (per-flavour driver raise summaries, exception-class DAG) + NO-ESCAPE(EngineIOError) from the handshake',
    'C07': 'linear-form comparison of deadline/timeout expressions + path rules on _send_ping/check_ping_timeout/send/poll/service task + WHO-MAY write last_ping + unbounded-queue construction rule + no early exit from a monitor pass + WHO-MAY call schedule_ping over the call graph + constructor slice storing ping_timeout unchanged',
    'C08': 'ONCE / EXIT-STATE path rules over sliced client CFGs (connect, disconnect, read-loop epilogues) + def-use rule on what _reset() clears + handler-coverage rule on response decoding + containment/legacy-retry rules of _trigger_event',
    'C09': 'dispatch TABLE over wire types for the client + write-loop dataflow rules + URL decision table + linear-form timeout rules',
    'C10': 'AGREE across components: producer bound vs consumer limit, timer dominance (linear forms), shared codec classes and handshake constants',
    'C11': 'provenance of OPEN fields on _handle_connect paths + AGREE(_upgrades guards, admission conditions)',
    'C12': 'MUST-PRECEDE guard sets per sink over all paths of handle_request + NO-EFFECT refusal rule + NO-ESCAPE(KeyError) on lookups + abstract cases over the constructor slice storing transports + WHO-MAY write the request mapping (middleware)',
    'C13': 'MUST-PRECEDE (origin gate first) + abstract cases over cors_allowed_origins kinds + control-dependence of emitted CORS headers + per-response provenance of the CORS header list + constructor slice storing the policy unchanged',
    'C14': 'integer linear-form gate rules (POST length, frame length, packet count) + WHO-MAY(ws.wait) + bounded-read argument rule + limit-site rules (class attribute only, no gateway limit) + ASGI body assembly path rule',
    'C15': 'response-shape kinds + exactly-one-response path rule + NO-BLOCK reachability with literal-kwarg pruning + ASGI event-sequence path enumeration',
    'C16': 'WHO-MAY / lookup-discipline rules on the session table + reaping-site path rules + fresh-container ownership rule + handler-coverage rules (asyncio poll() cancellation, ASGI close())',
    'C17': 'template match of generate_id + closed arithmetic obligations over extracted constants (evaluated, no solver)',
    'C18': 'SIBLING fact-set diff of 22 threaded/asyncio function pairs modulo async normalisation and a reviewed-difference table + shared oracle rules',
    'C19': 'CFG slice of the compression block with pairing/condition path rules + codec registry AGREE + JSONP escaper TAINT-completeness rule',
    'C20': 'routing decision tables from path guards (WSGI/ASGI) + endpoint normalisation by constant folding over representative spellings + lifespan event-sequence path rule + TAINT(request path -> filename) sanitizer rule with same-term test (no rewrite between test and use)',
}
checks = []
for pid in sorted(_EX):
    level = 'proof' if pid == 'C17' else 'other'
    checks.append({
        'property_id': pid,
        'quick_cmd': './check %s --tier quick' % pid,
        'thorough_cmd': './check %s --tier thorough' % pid,
        'evidence_file': 'evidence/%s.json' % pid,
        'replay_cmd_template': './check %s --explain {path}' % pid,
        'engine': 'sa',
        'level_claimed': {
            'category': level,
            'text': ('Static decision of the structural clauses of %s that are necessary conditions '
                     'of the behaviour (the behaviour as a whole is NOT claimed). Decided: %s '
                     'Not decided: %s.' % (pid, _EX[pid], '; '.join(_ND[pid]))),
            'design_ref': 'DESIGN.md section 5/%s' % pid,
        },
        'level_note': ('Trusted: CPython ast; the abstract evaluator (sa/absval.py); the receiver '
                       'model (sa/resolve.py); explicit-raise based exception edges; library '
                       'semantics of json/base64/gzip/queue/urllib as axioms. A pass means every '
                       'obligation generated on the current source was discharged; exit 2 '
                       '(ANALYSIS-ERROR) means a shape was not understood - never a VIOLATION.'),
        'technique': 'static analysis: ' + TECH[pid],
    })
m = {
    'version': 1,
    'setup_cmd': 'true',
    'hooks': {
        'guard': 'ENGINEIO_VERIF',
        'enable': 'no hooks: the checks never import or execute /repo, they parse /repo/src/engineio on every run',
        'baseline_off_cmd': 'cd /repo && /venv/bin/python -m pytest -ra -q -p no:cacheprovider --timeout=900 --continue-on-collection-errors',
        'source_commits': [],
        'add_only': True,
    },
    'engines': [{'name': 'sa', 'path': 'sa/', 'serves_properties': sorted(_EX),
                 'kind_free_text': 'AST program model, statement CFG with lowered conditions and '
                                   'exception edges, guarded-effect path enumeration with '
                                   'copy/constant propagation and abstract pruning, receiver '
                                   'typing / call resolution, rule library in props/'}],
    'checks': checks,
    'notes': 'Technique family: static analysis only (stdlib ast). Thorough tier = same rules with '
             'deeper loop unrolling plus the both-ways self-validation catalogue '
             '(selftest/catalogue.json: breaking edits must fire, twin edits must stay silent). '
             'Known findings: known_findings.json. Seeded defects: seeded/.',
    'not_applicable': [],
}
json.dump(m, open(os.path.join(VERIF, 'MANIFEST.json'), 'w'), indent=1)
print('MANIFEST.json written:', len(checks), 'checks')
