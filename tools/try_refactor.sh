#!/bin/sh
# usage: try_refactor.sh <dir with patch.diff> <outfile>   -- all 20 checks must stay silent
D="$1"; OUT="$2"
W=$(mktemp -d /tmp/rf.XXXXXX)
mkdir -p "$W/src" && cp -r /repo/src/engineio "$W/src/engineio"
cd "$W"
if ! patch -p1 -s < "$D/patch.diff" >/dev/null 2>&1; then echo "$D PATCH-FAILED" > "$OUT"; rm -rf "$W"; exit 0; fi
: > "$OUT"
for p in C01 C02 C03 C04 C05 C06 C07 C08 C09 C10 C11 C12 C13 C14 C15 C16 C17 C18 C19 C20; do
  o=$(ENGINEIO_REPO="$W" /verif/check $p --tier quick 2>&1)
  rc=$?
  if [ $rc -ne 0 ]; then
     echo "$D $p rc=$rc" >> "$OUT"
     echo "$o" | grep -E "violated:|ANALYSIS-ERROR|undecided:" | cut -c1-260 | head -4 >> "$OUT"
  fi
done
[ -s "$OUT" ] || echo "$D silent" > "$OUT"
rm -rf "$W"
