#!/bin/sh
# usage: verify_seed.sh <dir with patch.diff, demo_test.py> <outfile>
# checks: patch applies; demo FAILS with patch, PASSES without; pinned suite passes with patch; which checks fire
D="$1"; OUT="$2"
W=$(mktemp -d /tmp/sv.XXXXXX)
cp -r /repo/src /repo/tests /repo/pyproject.toml /repo/tox.ini "$W"/ 2>/dev/null
cd "$W"
demo_clean=$(PYTHONPATH="$W/src" timeout 300 /venv/bin/python -m pytest -q -p no:cacheprovider -x "$D/demo_test.py" >/dev/null 2>&1; echo $?)
if ! patch -p1 -s < "$D/patch.diff" >/dev/null 2>&1; then echo "{\"dir\": \"$D\", \"error\": \"patch failed\"}" > "$OUT"; rm -rf "$W"; exit 0; fi
demo_patched=$(PYTHONPATH="$W/src" timeout 300 /venv/bin/python -m pytest -q -p no:cacheprovider "$D/demo_test.py" >/dev/null 2>&1; echo $?)
base=$(/tmp/mut/check_baseline.py "$W" | head -1)
fired=""
errs=""
for p in C01 C02 C03 C04 C05 C06 C07 C08 C09 C10 C11 C12 C13 C14 C15 C16 C17 C18 C19 C20; do
  o=$(ENGINEIO_REPO="$W" /verif/check $p --tier quick 2>/dev/null)
  rc=$?
  if [ $rc -eq 1 ]; then
     rules=$(echo "$o" | grep "violated:" | sed 's/.*violated: \[\([^]]*\)\].*/\1/' | sort -u | tr '\n' ',' )
     fired="$fired $p:$rules"
  elif [ $rc -ne 0 ]; then errs="$errs $p"; fi
done
echo "{\"dir\": \"$D\", \"demo_clean_rc\": $demo_clean, \"demo_patched_rc\": $demo_patched, \"baseline\": \"$base\", \"fired\": \"$fired\", \"analysis_errors\": \"$errs\"}" > "$OUT"
rm -rf "$W"
