#!/venv/bin/python
"""(Re)generate spec/reviewed_differences.json from the current tree. Every differing fact gets the
reason of its category; an uncategorised difference is printed as REVIEW and must be looked at by a
person before the file is committed.  Not used by any check at run time."""
import sys, json
sys.path.insert(0, '/verif')
from sa.report import Analysis
from props import C18
import os
p = '/verif/spec/reviewed_differences.json'
if os.path.exists(p):
    os.rename(p, p + '.old')
A = Analysis('/repo', 'C18')
d = C18.sibling_diff(A)


def reason(fn, side, t):
    if fn == 'disconnect':
        return 'sequential (threaded, over a copy of the table) vs concurrent (asyncio.wait over tasks) close of all sessions; every session is closed with reason SERVER_DISCONNECT in both'
    if fn == '_trigger_event':
        return 'coroutine / plain handler split, task reference holder and CancelledError handling exist only on asyncio; dispatch mode and containment are decided by the C05/C11 rules on both flavours'
    if fn == '_service_task':
        return 'asyncio variant also exits when the event loop is closed and re-reads the event attribute after awaits; pacing and sweep are decided by the C07/C16 rules on both flavours'
    if fn == 'poll':
        return 'driver-specific queue-empty exception lookup (threaded) vs asyncio.QueueEmpty / wait_for; same timeout ping_interval + ping_timeout'
    if fn == 'close':
        return 'AsyncSocket.close does not enqueue the None sentinel (F14): only affects how long an orphaned poll of an already closed session is held, bounded by the poll timeout'
    if fn == '_websocket_handler':
        return 'asyncio reads frames through a task with wait_for(interval+timeout) and awaits the writer task; threaded sets a socket timeout and joins the writer thread; the handler return value [] vs None is ignored by the drivers'
    if fn == 'handle_request':
        if 'accepted origin' in t:
            return 'text of the origin refusal differs (status 400 in both)'
        if 'translate_request' in t or t in ('call environ', 'def environ := environ'):
            return 'asyncio obtains the environ from the driver translate_request; threaded receives it as argument'
        if 'cors_headers' in t or '_cors_headers' in t:
            return 'CORS headers are added inside _make_response on asyncio (same _cors_headers(environ))'
        if 'unsupported version' in t or 'Invalid transport' in t:
            return 'asyncio returns the early 400 directly through _make_response, threaded binds r and responds; same constructor and message'
    return 'REVIEW'


out = [{'function': fn, 'side': side, 'fact': t, 'reason': reason(fn, side, t)} for fn, side, t in d]
n = 0
for o in out:
    if o['reason'] == 'REVIEW':
        n += 1
        print('REVIEW', o)
json.dump({'_comment': 'Differences between sibling threaded/asyncio functions that were read and judged benign (DESIGN.md 4.4, 5/C18). One entry per (function, side, fact); no wildcards.',
           'differences': out}, open(p, 'w'), indent=1)
print(len(out), 'differences;', n, 'need review')
