#!/venv/bin/python
"""Source of selftest/catalogue.json: in-memory edits used by the thorough tier to validate the
rules both ways (DESIGN.md 4.6).  B = breaking edit (the rule must fire), T = twin edit
(behaviour preserving, every rule must stay silent).  An edit is applied to the *current*
text of the file only if `old` occurs exactly once; otherwise the entry is reported as
skipped."""
import json
import os

E = []


def B(id, props, file, old, new, rule=None):
    E.append({'id': id, 'properties': props, 'file': file, 'old': old, 'new': new,
              'expect': 'fire', 'rule': rule})


def T(id, props, file, old, new):
    E.append({'id': id, 'properties': props, 'file': file, 'old': old, 'new': new,
              'expect': 'silent'})


# ------------------------------------------------------------------ C01 / C02 packet, payload
B('c01-b-separators', ['C01'], 'packet.py',
  "self.json.dumps(self.data,\n                                                  separators=(',', ':'))",
  "self.json.dumps(self.data)", 'C01.wire')
B('c01-b-swap-b64-arms', ['C01', 'C02'], 'packet.py',
  "            if b64:\n                encoded_packet = 'b' + base64.b64encode(self.data).decode(\n                    'utf-8')\n            else:\n                encoded_packet = self.data",
  "            if not b64:\n                encoded_packet = 'b' + base64.b64encode(self.data).decode(\n                    'utf-8')\n            else:\n                encoded_packet = self.data")
B('c01-b-urlsafe', ['C01'], 'packet.py', "base64.b64encode(self.data)", "base64.urlsafe_b64encode(self.data)")
B('c01-b-message-guard', ['C01'], 'packet.py',
  "        if self.binary and self.packet_type != MESSAGE:\n            raise ValueError('Binary packets can only be of type MESSAGE')\n", "",
  'C01.binary-message')
B('c01-b-decode-type-from-byte', ['C01'], 'packet.py',
  "            if self.binary:\n                self.packet_type = MESSAGE\n                self.data = encoded_packet",
  "            if self.binary:\n                self.packet_type = encoded_packet[0]\n                self.data = encoded_packet")
B('c01-b-unkeyed-cache', ['C01', 'C02'], 'packet.py',
  "        if self.encode_cache and \\\n                (not self.binary or self.encode_cache_b64 == b64):",
  "        if self.encode_cache:", None)
B('c01-b-prefix-literal', ['C01'], 'packet.py', "encoded_packet[0] == 'b'", "encoded_packet[0] == 'B'")
B('c01-b-int-test-float', ['C01'], 'packet.py', "if isinstance(self.data, int):",
  "if isinstance(self.data, (int, float)):", 'C01.json-lookalike')
T('c01-t-isinstance-tuple', ['C01'], 'packet.py',
  "elif isinstance(self.data, dict) or isinstance(self.data, list):",
  "elif isinstance(self.data, (dict, list)):")
T('c01-t-names-qualified', ['C01'], 'packet.py',
  "        if self.binary and self.packet_type != MESSAGE:", "        if self.binary and MESSAGE != self.packet_type:")
T('c01-t-cache-local', ['C01', 'C02'], 'packet.py',
  "        self.encode_cache = encoded_packet\n        self.encode_cache_b64 = b64\n        return encoded_packet",
  "        result = encoded_packet\n        self.encode_cache_b64 = b64\n        self.encode_cache = result\n        return result")
T('c01-t-init-binary-expr', ['C01'], 'packet.py',
  "        if isinstance(data, str):\n            self.binary = False\n        elif isinstance(data, binary_types):\n            self.binary = True\n        else:\n            self.binary = False",
  "        self.binary = isinstance(data, binary_types)")
T('c01-t-decode-early-return', ['C01'], 'packet.py',
  "        if b64:\n            self.binary = True\n            self.packet_type = MESSAGE\n            self.data = base64.b64decode(encoded_packet[1:])\n        else:",
  "        if b64:\n            self.binary = True\n            self.packet_type = MESSAGE\n            self.data = base64.b64decode(encoded_packet[1:])\n            return\n        if True:")

B('c02-b-ge', ['C02', 'C14', 'C04'], 'payload.py', "if len(encoded_packets) > self.max_decode_packets:",
  "if len(encoded_packets) >= self.max_decode_packets:")
B('c02-b-check-after-build', ['C02', 'C14'], 'payload.py',
  "        if len(encoded_packets) > self.max_decode_packets:\n            raise ValueError('Too many packets in payload')\n        self.packets = [packet.Packet(encoded_packet=encoded_packet)\n                        for encoded_packet in encoded_packets]",
  "        self.packets = [packet.Packet(encoded_packet=encoded_packet)\n                        for encoded_packet in encoded_packets]\n        if len(encoded_packets) > self.max_decode_packets:\n            raise ValueError('Too many packets in payload')")
B('c02-b-incremental', ['C02'], 'payload.py',
  "        self.packets = [packet.Packet(encoded_packet=encoded_packet)\n                        for encoded_packet in encoded_packets]",
  "        for encoded_packet in encoded_packets:\n            self.packets.append(packet.Packet(encoded_packet=encoded_packet))")
B('c02-b-separator', ['C02'], 'payload.py', "encoded_payload += '\\x1e'", "encoded_payload += '\\x1f'")
B('c02-b-binary-channel', ['C02'], 'payload.py', "pkt.encode(b64=True)", "pkt.encode(b64=False)")
B('c02-b-reversed', ['C02'], 'payload.py', "for pkt in self.packets:", "for pkt in reversed(self.packets):")
T('c02-t-limit-local', ['C02', 'C14'], 'payload.py',
  "        if len(encoded_packets) > self.max_decode_packets:",
  "        limit = self.max_decode_packets\n        if len(encoded_packets) > limit:")
T('c02-t-count-form', ['C02', 'C14'], 'payload.py',
  "        if len(encoded_packets) > self.max_decode_packets:",
  "        if not len(encoded_packets) <= self.max_decode_packets:")
T('c02-t-empty-test', ['C02'], 'payload.py', "if len(encoded_payload) == 0:", "if 0 == len(encoded_payload):")

# ------------------------------------------------------------------ sockets (both flavours)
for f, aw in (('socket.py', ''), ('async_socket.py', 'await ')):
    tag = 'sync' if not aw else 'async'
    B('c04-b-swap-branches-' + tag, ['C04', 'C18'], f,
      "        elif pkt.packet_type == packet.UPGRADE:\n            %sself.send(packet.Packet(packet.NOOP))" % aw,
      "        elif pkt.packet_type == packet.UPGRADE:\n            %sself.send(packet.Packet(packet.CLOSE))" % aw,
      'C04.dispatch')
    B('c04-b-drop-abort-' + tag, ['C04', 'C05'], f,
      "%sself.close(wait=False, abort=True,\n            %s           reason=self.server.reason.CLIENT_DISCONNECT)" % (aw, ' ' * len(aw)),
      "%sself.close(wait=False,\n            %s           reason=self.server.reason.CLIENT_DISCONNECT)" % (aw, ' ' * len(aw)))
    B('c05-b-closing-after-trigger-' + tag, ['C05', 'C18'], f,
      "            self.closing = True\n            %sself.server._trigger_event(\n                'disconnect', self.sid,\n                reason or self.server.reason.SERVER_DISCONNECT,\n                run_async=False)\n" % aw,
      "            %sself.server._trigger_event(\n                'disconnect', self.sid,\n                reason or self.server.reason.SERVER_DISCONNECT,\n                run_async=False)\n            self.closing = True\n" % aw,
      'C05.once')
    B('c07-b-flip-' + tag, ['C07'], f, "time.time() - self.last_ping > self.server.ping_timeout",
      "time.time() - self.last_ping < self.server.ping_timeout", 'C07.deadline')
    B('c07-b-ge-' + tag, ['C07'], f, "time.time() - self.last_ping > self.server.ping_timeout",
      "time.time() - self.last_ping >= self.server.ping_timeout", 'C07.deadline')
    B('c07-b-interval-' + tag, ['C07'], f, "time.time() - self.last_ping > self.server.ping_timeout",
      "time.time() - self.last_ping > self.server.ping_interval", 'C07.deadline')
    B('c07-b-no-clear-' + tag, ['C07'], f, "        self.last_ping = None\n", "", 'C07.clear')
    T('c07-t-deadline-' + tag, ['C07', 'C05'], f,
      "        if self.last_ping and \\\n                time.time() - self.last_ping > self.server.ping_timeout:",
      "        if self.last_ping and \\\n                time.time() > self.last_ping + self.server.ping_timeout:")
    B('c14-b-gate-ge-' + tag, ['C14', 'C04'], f, "if length > self.server.max_http_buffer_size:",
      "if length >= self.server.max_http_buffer_size:")
    B('c14-b-frame-ge-' + tag, ['C14'], f, "len(data) > self.server.max_http_buffer_size",
      "len(data) >= self.server.max_http_buffer_size", 'C14.frame-gate')
    T('c14-t-gate-flip-' + tag, ['C14', 'C04', 'C05'], f, "if length > self.server.max_http_buffer_size:",
      "if self.server.max_http_buffer_size < length:")
    B('c03-b-noop-gate-' + tag, ['C03', 'C06'], f, "        if self.upgrading or self.upgraded:",
      "        if self.upgraded:", 'C03.noop-gate' if False else None)
    B('c06-b-probe-literal-' + tag, ['C06', 'C10'], f, "decoded_pkt.data != 'probe'", "decoded_pkt.data != 'prob'")
    B('c06-b-drop-upgrade-test-' + tag, ['C06'], f, "if decoded_pkt.packet_type != packet.UPGRADE:",
      "if False:")
    B('c03-b-insert-' + tag, ['C03'], f, "                packets.append(pkt)", "                packets.insert(0, pkt)")
    T('c05-t-close-early-return-' + tag, ['C05', 'C10', 'C15', 'C16', 'C18'], f,
      "        if not self.closed and not self.closing:\n            self.closing = True",
      "        if not (self.closed or self.closing):\n            self.closing = True")

B('c05-b-closed-false', ['C05'], 'socket.py', "                self.upgraded = False\n",
  "                self.upgraded = False\n                self.closed = False\n", 'C05.monotone')
B('c03-b-writer-before-upgraded', ['C03', 'C06'], 'socket.py',
  "            self.upgraded = True\n            self.upgrading = False\n        else:",
  "            self.upgrading = False\n        else:")
B('c04-b-reversed-post', ['C04'], 'socket.py', "            for pkt in p.packets:", "            for pkt in reversed(p.packets):")
B('c04-b-str-data', ['C04'], 'socket.py', "self.server._trigger_event('message', self.sid, pkt.data,",
  "self.server._trigger_event('message', self.sid, str(pkt.data),")
B('c07-b-poll-timeout', ['C07', 'C03'], 'socket.py',
  "                timeout=self.server.ping_interval + self.server.ping_timeout)]",
  "                timeout=self.server.ping_interval)]")
T('c07-t-poll-timeout-local', ['C07', 'C03'], 'socket.py',
  "        try:\n            packets = [self.queue.get(\n                timeout=self.server.ping_interval + self.server.ping_timeout)]",
  "        wait_for = self.server.ping_timeout + self.server.ping_interval\n        try:\n            packets = [self.queue.get(timeout=wait_for)]")
T('c04-t-receive-early-returns', ['C04', 'C07', 'C10', 'C18'], 'socket.py',
  "        if pkt.packet_type == packet.PONG:\n            self.schedule_ping()\n        elif pkt.packet_type == packet.MESSAGE:",
  "        if pkt.packet_type == packet.PONG:\n            self.schedule_ping()\n            return\n        if pkt.packet_type == packet.MESSAGE:")
T('c06-t-upgrade-try-finally-removed-and-inline', ['C06', 'C03'], 'socket.py',
  "        try:\n            return ws(environ, start_response)\n        finally:\n            # the upgrade is over, regardless of how it ended\n            self.upgrading = False",
  "        try:\n            result = ws(environ, start_response)\n        finally:\n            self.upgrading = False\n        return result")

# ------------------------------------------------------------------ servers
for f, aw in (('server.py', ''), ('async_server.py', 'await ')):
    tag = 'sync' if not aw else 'async'
    B('c12-b-drop-eio-' + tag, ['C12', 'C18'], f, "if sid is None and query.get('EIO') != ['4']:",
      "if False and query.get('EIO') != ['4']:", 'C12.admission')
    B('c12-b-and-or-' + tag, ['C12'], f,
      "if self.transport(sid) != transport and \\\n                                transport != upgrade_header:",
      "if self.transport(sid) != transport or \\\n                                transport != upgrade_header:")
    B('c12-b-405-ok-' + tag, ['C12', 'C15'], f, "            r = self._method_not_found()", "            r = self._ok()")
    B('c12-b-refusal-disconnects-' + tag, ['C12'], f,
      "                            r = self._bad_request('Invalid transport')",
      "                            %ssocket.close(wait=False)\n                            r = self._bad_request('Invalid transport')" % aw,
      'C12.refusal-inert')
    B('c12-b-transport-gate-off-' + tag, ['C12'], f, "        transport = query.get('transport', ['polling'])[0]\n        if transport not in self.transports:",
      "        transport = query.get('transport', ['polling'])[0]\n        if False:", None)
    B('c11-b-maxpayload-' + tag, ['C11'], f, "'maxPayload': self.max_http_buffer_size,",
      "'maxPayload': self.compression_threshold,", 'C11.open-fields')
    B('c11-b-sid-regenerated-' + tag, ['C11', 'C05'], f, "self._trigger_event('connect', sid, environ,",
      "self._trigger_event('connect', self.generate_id(), environ,")
    B('c19-b-gt-' + tag, ['C19'], f, "len(r['response']) >= self.compression_threshold:",
      "len(r['response']) > self.compression_threshold:", 'C19.conditions')
    B('c19-b-no-break-' + tag, ['C19'], f,
      "                    r['headers'] += [('Content-Encoding', encoding)]\n                    break",
      "                    r['headers'] += [('Content-Encoding', encoding)]")
    B('c16-b-reject-keeps-' + tag, ['C16', 'C11', 'C05'], f,
      "            del self.sockets[sid]\n            self.logger.warning('Application rejected connection')",
      "            self.logger.warning('Application rejected connection')")
    B('c16-b-sweep-no-del-' + tag, ['C16'], f,
      "                    if s.closed:\n                        try:\n                            del self.sockets[s.sid]\n                        except KeyError:",
      "                    if s.closed:\n                        try:\n                            pass\n                        except KeyError:")
    B('c16-b-send-packet-no-try-' + tag, ['C16'], f,
      "        try:\n            socket = self._get_socket(sid)\n        except KeyError:\n            # the socket is not available\n            self.logger.warning('Cannot send to sid %s', sid)\n            return\n",
      "        socket = self._get_socket(sid)\n")
    T('c12-t-sid-get-' + tag, ['C12', 'C13', 'C15', 'C18'], f,
      "        sid = query['sid'][0] if 'sid' in query else None\n        if sid is None and query.get('EIO') != ['4']:",
      "        sid = query.get('sid', [None])[0]\n        if sid is None and query.get('EIO') != ['4']:")
    T('c12-t-eio-demorgan-' + tag, ['C12', 'C15'], f, "if sid is None and query.get('EIO') != ['4']:",
      "if not (sid is not None or query.get('EIO') == ['4']):")

B('c15-b-status-404', ['C15', 'C19'], 'base_server.py', "'405 METHOD NOT FOUND'", "'404 NOT FOUND'")
B('c17-b-token8', ['C17'], 'base_server.py', "secrets.token_bytes(12)", "secrets.token_bytes(8)")
B('c17-b-mask16', ['C17'], 'base_server.py', "& 0xffffff", "& 0xffff", 'C17.counter')
B('c17-b-no-increment', ['C17'], 'base_server.py', "self.sequence_number = (self.sequence_number + 1) & 0xffffff",
  "self.sequence_number = self.sequence_number & 0xffffff")
B('c17-b-replace', ['C17'], 'base_server.py', ".replace('+', '-')", ".replace('+', '_')")
T('c17-t-urandom', ['C17'], 'base_server.py', "secrets.token_bytes(12)", "os.urandom(12)")
T('c17-t-mask-shift', ['C17'], 'base_server.py', "& 0xffffff", "& ((1 << 24) - 1)")
B('c13-b-startswith', ['C13'], 'base_server.py',
  "            allowed_origins = [self.cors_allowed_origins]", "            allowed_origins = self.cors_allowed_origins",
  'C13.allowed-set')
B('c13-b-acao-star', ['C13'], 'base_server.py',
  "headers = [('Access-Control-Allow-Origin', environ['HTTP_ORIGIN'])]",
  "headers = [('Access-Control-Allow-Origin', '*')]", 'C13.never-over-grant')
B('c13-b-cred-unconditional', ['C13'], 'base_server.py', "        if self.cors_credentials:\n            headers +=",
  "        if True:\n            headers +=", 'C13.credentials')
B('c11-b-upgrades-allow', ['C11'], 'base_server.py', "if not self.allow_upgrades or self._get_socket(sid).upgraded",
  "if self._get_socket(sid).upgraded", 'C11.advertise=>accept')
B('c19-b-deflate-raw', ['C19'], 'base_server.py', "return zlib.compress(response)",
  "return zlib.compress(response, wbits=-15)", 'C19.deflate')
T('c16-t-get-socket-get', ['C16', 'C12'], 'base_server.py',
  "        try:\n            s = self.sockets[sid]\n        except KeyError:\n            raise KeyError('Session not found')\n        if s.closed:",
  "        try:\n            s = self.sockets[sid]\n        except KeyError:\n            raise KeyError('Session not found') from None\n        if s.closed:")
T('c13-t-demorgan-acao', ['C13'], 'base_server.py',
  "        if 'HTTP_ORIGIN' in environ and \\\n                (allowed_origins is None or environ['HTTP_ORIGIN'] in\n                 allowed_origins):",
  "        if 'HTTP_ORIGIN' in environ and \\\n                not (allowed_origins is not None and environ['HTTP_ORIGIN'] not in\n                     allowed_origins):")

# ------------------------------------------------------------------ clients
for f, aw in (('client.py', ''), ('async_client.py', 'await ')):
    tag = 'sync' if not aw else 'async'
    B('c09-b-pong-nodata-' + tag, ['C09', 'C10'], f, "packet.Packet(packet.PONG, pkt.data)", "packet.Packet(packet.PONG)",
      'C09.dispatch')
    B('c08-b-state-early-' + tag, ['C08'], f,
      "        open_packet = p.packets[0]\n        if open_packet.packet_type != packet.OPEN:",
      "        open_packet = p.packets[0]\n        self.state = 'connected'\n        if open_packet.packet_type != packet.OPEN:",
      'C08.failure-clean')
    B('c08-b-guard-send-' + tag, ['C08', 'C09'], f, "        if self.state != 'connected':\n            return\n        %sself.queue.put(pkt)" % aw,
      "        %sself.queue.put(pkt)" % aw)
    B('c09-b-probe-' + tag, ['C09', 'C10', 'C08'], f, "if pkt.packet_type != packet.PONG or pkt.data != 'probe':",
      "if pkt.packet_type != packet.PONG:")
    T('c08-t-state-ne-' + tag, ['C08', 'C09'], f, "        if self.state != 'connected':\n            return\n        %sself.queue.put(pkt)" % aw,
      "        if not self.state == 'connected':\n            return\n        %sself.queue.put(pkt)" % aw)
B('c09-b-eio3', ['C09'], 'base_client.py', "transport={transport}&EIO=4", "transport={transport}&EIO=3", 'C09.url')
B('c09-b-wss', ['C09'], 'base_client.py', "if parsed_url.scheme in ['https', 'wss']:", "if parsed_url.scheme in ['https']:")

# ------------------------------------------------------------------ middleware / static
B('c20-b-rstrip', ['C20'], 'middleware.py', "path.startswith(self.engineio_path)",
  "path.startswith(self.engineio_path.rstrip('/'))", 'C20.routing')
B('c20-b-sanitizer-removed', ['C20'], 'static_files.py',
  "    if f and '..' in extra_path.split('/'):\n        # do not allow the request to leave the mapped directory\n        f = None\n", "",
  'C20.containment')
B('c20-b-failed-then-complete', ['C20'], 'async_drivers/asgi.py',
  "                        await send({'type': 'lifespan.startup.failed'})\n                        return",
  "                        await send({'type': 'lifespan.startup.failed'})")
T('c20-t-path-none-first', ['C20'], 'middleware.py',
  "        if path is not None and path.startswith(self.engineio_path):",
  "        if not (path is None) and path.startswith(self.engineio_path):")

# ------------------------------------------------------------------ round-5 rules
B('c05-b-reason-dup', ['C05'], 'base_server.py', "TRANSPORT_ERROR = 'transport error'",
  "TRANSPORT_ERROR = 'transport close'", 'C05.reason-texts')
B('c05-b-unawaited-close', ['C05'], 'async_server.py',
  "                            await socket.close(\n                                wait=False,\n                                reason=self.reason.SERVER_DISCONNECT)",
  "                            socket.close(\n                                wait=False,\n                                reason=self.reason.SERVER_DISCONNECT)",
  'C05.awaited')
B('c05-b-asgi-close-narrow', ['C05', 'C16'], 'async_drivers/asgi.py',
  "        except Exception:\n            # if the socket is already close we don't care",
  "        except OSError:\n            # if the socket is already close we don't care")
T('c05-t-asgi-close-base', ['C05', 'C16'], 'async_drivers/asgi.py',
  "        except Exception:\n            # if the socket is already close we don't care",
  "        except (OSError, RuntimeError, Exception):\n            # if the socket is already close we don't care")
B('c07-b-clamp-timeout', ['C07'], 'base_server.py', "        self.ping_timeout = ping_timeout\n",
  "        self.ping_timeout = min(ping_timeout, self.ping_interval)\n", 'C07.config')
B('c07-b-rearm-on-upgrade', ['C07'], 'socket.py',
  "            self.upgraded = True\n            self.upgrading = False\n        else:",
  "            self.upgraded = True\n            self.upgrading = False\n            self.schedule_ping()\n        else:",
  'C07.arm-sites')
B('c06-b-switch-order', ['C06'], 'socket.py',
  "            self.upgraded = True\n            self.upgrading = False\n        else:",
  "            self.upgrading = False\n            self.upgraded = True\n        else:", 'C06.switch-order')
T('c06-t-switch-order-async', ['C06'], 'async_socket.py',
  "            self.upgraded = True\n            self.upgrading = False\n        else:",
  "            self.upgrading = False\n            self.upgraded = True\n        else:")
B('c04-b-asgi-wait-key', ['C04'], 'async_drivers/asgi.py',
  "        return event.get('bytes') or event.get('text')",
  "        if 'bytes' in event:\n            return event['bytes']\n        return event.get('text')",
  'C04.driver-wait')
T('c04-t-asgi-wait-value', ['C04'], 'async_drivers/asgi.py',
  "        return event.get('bytes') or event.get('text')",
  "        data = event.get('bytes')\n        if not data:\n            data = event.get('text')\n        return data")
B('c11-b-asgi-reason-slice', ['C11'], 'async_drivers/asgi.py',
  "                                            'reason': reason})",
  "                                            'reason': reason[:123]})", 'C11.reject-value')
B('c16-b-poll-cancel', ['C16'], 'async_socket.py',
  "        except (asyncio.TimeoutError, asyncio.CancelledError):",
  "        except asyncio.TimeoutError:", 'C16.poll-cancel')
T('c16-t-poll-cancel-order', ['C16', 'C07', 'C03'], 'async_socket.py',
  "        except (asyncio.TimeoutError, asyncio.CancelledError):",
  "        except (asyncio.CancelledError, asyncio.TimeoutError):")
B('c08-b-decode-filter', ['C08', 'C01', 'C02'], 'payload.py',
  "        encoded_packets = encoded_payload.split('\\x1e')",
  "        encoded_packets = [e for e in encoded_payload.split('\\x1e') if e]")
B('c20-b-unquote-after-test', ['C20'], 'static_files.py',
  "        f['filename'] += extra_path\n", "        f['filename'] += extra_path.replace('%2e', '.')\n",
  'C20.containment')
T('c20-t-filename-local', ['C20'], 'static_files.py',
  "        f['filename'] += extra_path\n", "        f['filename'] = f['filename'] + extra_path\n")

if __name__ == '__main__':
    out = os.path.join(os.path.dirname(os.path.abspath(__file__)), 'catalogue.json')
    ids = [e['id'] for e in E]
    assert len(ids) == len(set(ids)), 'duplicate ids'
    json.dump({'entries': E}, open(out, 'w'), indent=1)
    print('%d entries (%d breaking, %d twins)' % (len(E), sum(e['expect'] == 'fire' for e in E),
                                                  sum(e['expect'] == 'silent' for e in E)))
