"""Both-ways self-validation of the rules (DESIGN.md 4.6): in-memory source edits."""
import json
import os
import sys
import time
from concurrent.futures import ProcessPoolExecutor

HERE = os.path.dirname(os.path.abspath(__file__))
VERIF = os.path.dirname(HERE)


def _run_one(args):
    prop, entry, repo, seed = args
    import importlib
    sys.path.insert(0, VERIF)
    from sa.report import run_property
    mod = importlib.import_module('props.' + prop)
    rel = entry['file']
    path = os.path.join(repo, 'src', 'engineio', rel)
    src = open(path, encoding='utf-8').read()
    if src.count(entry['old']) != 1:
        return (entry['id'], 'skipped', 'snippet not found exactly once in the current tree')
    new = src.replace(entry['old'], entry['new'])
    try:
        compile(new, rel, 'exec')
    except SyntaxError as e:
        return (entry['id'], 'skipped', 'edit does not compile: %s' % e)
    code, A = run_property(prop, mod, 'quick', seed, repo, overrides={rel: new}, quiet=True,
                           write_evidence=False)
    if A is None:
        return (entry['id'], 'error', 'analysis error on the edited tree')
    from sa.report import load_known
    known, _ = load_known(prop)
    viol = [o for o in A.obligations if o.status == 'violated' and
            not any(k.get('rule') == o.rule and k.get('key') == o.key for k in known)]
    und = [o for o in A.obligations if o.status == 'undecided']
    if entry['expect'] == 'fire':
        if viol:
            want = entry.get('rule')
            if want and want.split('.')[0] == prop and not any(o.rule == want for o in viol):
                return (entry['id'], 'fail', 'fired, but not rule %s: %s'
                        % (want, sorted({o.rule for o in viol})))
            return (entry['id'], 'ok', 'fired: ' + ', '.join(sorted({o.rule for o in viol}))[:200])
        return (entry['id'], 'fail', 'breaking edit not detected' +
                (' (undecided: %d)' % len(und) if und else ''))
    else:
        if viol:
            return (entry['id'], 'fail', 'false alarm on a behaviour-preserving edit: ' +
                    '; '.join('%s %s' % (o.rule, o.what[:80]) for o in viol[:3]))
        if und:
            return (entry['id'], 'fail', 'twin edit is undecided: ' + und[0].what[:100])
        return (entry['id'], 'ok', 'silent')


def run_catalogue(prop, module, repo, seed):
    path = os.path.join(HERE, 'catalogue.json')
    if not os.path.exists(path):
        return 0
    cat = [e for e in json.load(open(path))['entries'] if prop in e['properties']]
    if not cat:
        print('%s selftest: no catalogue entries' % prop)
        return 0
    t0 = time.time()
    with ProcessPoolExecutor(max_workers=min(16, len(cat))) as ex:
        res = list(ex.map(_run_one, [(prop, e, repo, seed) for e in cat]))
    ok = [r for r in res if r[1] == 'ok']
    bad = [r for r in res if r[1] in ('fail', 'error')]
    skipped = [r for r in res if r[1] == 'skipped']
    nb = sum(1 for e in cat if e['expect'] == 'fire')
    print('%s selftest: %d entries (%d breaking, %d twins): %d ok, %d failed, %d skipped; %.1fs'
          % (prop, len(cat), nb, len(cat) - nb, len(ok), len(bad), len(skipped),
             time.time() - t0))
    for r in bad:
        print('  SELFTEST-FAIL %s: %s' % (r[0], r[2]))
    for r in skipped:
        print('  selftest skipped %s: %s' % (r[0], r[2]))
    # record in the evidence file
    evp = os.path.join(VERIF, 'evidence', prop + '.json')
    try:
        ev = json.load(open(evp))
        ev['coverage']['selftest'] = {
            'breaking_detected': sum(1 for e, r in zip(cat, res) if e['expect'] == 'fire' and r[1] == 'ok'),
            'breaking_total': nb,
            'twins_silent': sum(1 for e, r in zip(cat, res) if e['expect'] == 'silent' and r[1] == 'ok'),
            'twins_total': len(cat) - nb,
            'skipped': [r[0] for r in skipped],
        }
        json.dump(ev, open(evp, 'w'), indent=1, default=str)
    except Exception:
        pass
    if bad:
        print('ANALYSIS-ERROR property=%s the rule catalogue failed: the checker is not trusted'
              % prop)
        return 2
    return 0
