"""Replay of the two independently written corpora in the thorough tier.

``seeded/<ID>-*``  defects written by sub-agents that never saw /verif: the check of property
                   <ID> must report every one of them on the patched tree;
``benign/*``       behaviour-preserving refactorings: every check must stay silent on them.

The patches are unified diffs (``git diff``) against the tree they were written for.  They are
applied *in memory* to the current sources of /repo (Model overrides), nothing is written
anywhere.  A patch that does not apply to the current tree any more is skipped and listed;
it never fails the run.
"""
import json
import os
import re
import sys
import time
from concurrent.futures import ProcessPoolExecutor

HERE = os.path.dirname(os.path.abspath(__file__))
VERIF = os.path.dirname(HERE)
PREFIX = 'src/engineio/'


class PatchError(Exception):
    pass


def parse_diff(text):
    """-> {path relative to the repository: [hunk]}; hunk = (old_start, [(tag, line)])."""
    files = {}
    cur = None
    hunk = None
    for line in text.splitlines():
        if line.startswith('diff --git'):
            cur = None
            hunk = None
            continue
        if line.startswith('--- '):
            continue
        if line.startswith('+++ '):
            p = line[4:].strip()
            if p.startswith('b/'):
                p = p[2:]
            if p == '/dev/null':
                raise PatchError('file deletion')
            cur = files.setdefault(p, [])
            hunk = None
            continue
        m = re.match(r'^@@ -(\d+)(?:,(\d+))? \+(\d+)(?:,(\d+))? @@', line)
        if m and cur is not None:
            hunk = (int(m.group(1)), [])
            cur.append(hunk)
            continue
        if hunk is not None and line[:1] in (' ', '-', '+'):
            hunk[1].append((line[0], line[1:]))
        elif hunk is not None and line == '':
            hunk[1].append((' ', ''))
        elif line.startswith('\\'):
            continue
    return files


def apply_hunks(src, hunks):
    lines = src.split('\n')
    out = []
    pos = 0
    for start, body in hunks:
        old = [l for t, l in body if t in (' ', '-')]
        # strip trailing context-only blank artefacts
        want = max(start - 1, 0)
        found = None
        for delta in sorted(range(-60, 61), key=abs):
            i = want + delta
            if i < pos or i + len(old) > len(lines):
                continue
            if lines[i:i + len(old)] == old:
                found = i
                break
        if found is None:
            raise PatchError('hunk at line %d does not apply' % start)
        out.extend(lines[pos:found])
        for t, l in body:
            if t in (' ', '+'):
                out.append(l)
        pos = found + len(old)
    out.extend(lines[pos:])
    return '\n'.join(out)


def overrides_for(patch_path, repo):
    """{module path relative to src/engineio: new source} for a patch, or PatchError."""
    files = parse_diff(open(patch_path, encoding='utf-8').read())
    ov = {}
    for p, hunks in files.items():
        if not p.startswith(PREFIX):
            if p.startswith('tests/') or not p.endswith('.py'):
                continue
            raise PatchError('patch touches %s' % p)
        rel = p[len(PREFIX):]
        path = os.path.join(repo, p)
        if not os.path.exists(path):
            raise PatchError('%s does not exist (new files are not replayed)' % p)
        new = apply_hunks(open(path, encoding='utf-8').read(), hunks)
        try:
            compile(new, rel, 'exec')
        except SyntaxError as e:
            raise PatchError('patched %s does not compile: %s' % (rel, e))
        ov[rel] = new
    if not ov:
        raise PatchError('no source file touched')
    return ov


def _run_one(args):
    prop, kind, name, patch, repo, seed = args
    import importlib
    sys.path.insert(0, VERIF)
    try:
        ov = overrides_for(patch, repo)
    except PatchError as e:
        return (kind, name, 'skipped', str(e))
    from sa.report import run_property, load_known
    mod = importlib.import_module('props.' + prop)
    code, A = run_property(prop, mod, 'quick', seed, repo, overrides=ov, quiet=True,
                           write_evidence=False)
    if A is None:
        if kind == 'benign':
            return (kind, name, 'fail', 'analysis error (exit 2) on a behaviour-preserving edit')
        if kind == 'seeded-undecided':
            return (kind, name, 'listed', 'documented limit: analysis error')
        return (kind, name, 'fail', 'analysis error instead of a violation')
    known, _ = load_known(prop)
    viol = [o for o in A.obligations if o.status == 'violated' and
            not any(k.get('rule') == o.rule and k.get('key') == o.key for k in known)]
    if kind == 'seeded':
        if viol:
            return (kind, name, 'ok', ', '.join(sorted({o.rule for o in viol}))[:160])
        return (kind, name, 'fail', 'seeded defect not reported')
    if kind == 'seeded-undecided':
        if viol:
            return (kind, name, 'ok', ', '.join(sorted({o.rule for o in viol}))[:160])
        return (kind, name, 'listed', 'documented limit: not reported')
    if viol:
        return (kind, name, 'fail', 'false alarm: ' + '; '.join(
            '%s %s' % (o.rule, o.what[:70]) for o in viol[:3]))
    return (kind, name, 'ok', 'silent')


def _touched(patch):
    try:
        return {p[len(PREFIX):] for p in parse_diff(open(patch, encoding='utf-8').read())
                if p.startswith(PREFIX)}
    except Exception:
        return set()


def run_corpora(prop, analysed_files, repo, seed):
    """analysed_files: module paths (relative to src/engineio) the property's check read."""
    jobs = []
    sd = os.path.join(VERIF, 'seeded')
    if os.path.isdir(sd):
        for n in sorted(os.listdir(sd)):
            p = os.path.join(sd, n, 'patch.diff')
            if n.startswith(prop + '-') and os.path.exists(p):
                kind = 'seeded'
                try:
                    meta = json.load(open(os.path.join(sd, n, 'meta.json')))
                    if prop not in (meta.get('detected_by') or {}):
                        # recorded in DESIGN.md 9.5 as outside what the rules decide: replayed
                        # and listed, but it does not make the checker untrusted
                        kind = 'seeded-undecided'
                except Exception:
                    pass
                jobs.append((prop, kind, n, p, repo, seed))
    bd = os.path.join(VERIF, 'benign')
    n_irrelevant = 0
    if os.path.isdir(bd):
        for n in sorted(os.listdir(bd)):
            p = os.path.join(bd, n, 'patch.diff')
            if not os.path.exists(p):
                continue
            if analysed_files and not (_touched(p) & analysed_files):
                n_irrelevant += 1
                continue
            jobs.append((prop, 'benign', n, p, repo, seed))
    if not jobs:
        return 0
    t0 = time.time()
    with ProcessPoolExecutor(max_workers=min(16, len(jobs))) as ex:
        res = list(ex.map(_run_one, jobs))
    bad = [r for r in res if r[2] == 'fail']
    skipped = [r for r in res if r[2] == 'skipped']
    s_tot = sum(1 for r in res if r[0] == 'seeded' and r[2] != 'skipped')
    s_ok = sum(1 for r in res if r[0] == 'seeded' and r[2] == 'ok')
    b_tot = sum(1 for r in res if r[0] == 'benign' and r[2] != 'skipped')
    b_ok = sum(1 for r in res if r[0] == 'benign' and r[2] == 'ok')
    print('%s corpora: seeded defects reported %d/%d, refactorings silent %d/%d '
          '(%d touch nothing this check reads, %d no longer apply); %.1fs'
          % (prop, s_ok, s_tot, b_ok, b_tot, n_irrelevant, len(skipped), time.time() - t0))
    for r in bad:
        print('  CORPUS-FAIL %s %s: %s' % (r[0], r[1], r[3]))
    for r in res:
        if r[2] == 'listed':
            print('  corpus: %s is a recorded limit of this check (%s)' % (r[1], r[3]))
    for r in skipped:
        print('  corpus entry skipped %s %s: %s' % (r[0], r[1], r[3]))
    evp = os.path.join(VERIF, 'evidence', prop + '.json')
    try:
        ev = json.load(open(evp))
        ev['coverage']['corpora'] = {
            'seeded_reported': s_ok, 'seeded_replayed': s_tot,
            'seeded_rules': {r[1]: r[3] for r in res if r[0] == 'seeded' and r[2] == 'ok'},
            'benign_silent': b_ok, 'benign_replayed': b_tot,
            'benign_not_touching_analysed_files': n_irrelevant,
            'skipped': ['%s: %s' % (r[1], r[3]) for r in skipped],
            'seeded_recorded_limits': [r[1] for r in res if r[2] == 'listed'],
        }
        json.dump(ev, open(evp, 'w'), indent=1, default=str)
    except Exception:
        pass
    if bad:
        print('ANALYSIS-ERROR property=%s the corpus replay failed: the checker is not trusted'
              % prop)
        return 2
    return 0
